#!/usr/bin/env python3
"""Generates /verif/MANIFEST.json from obligations.toml (single source of truth for what is claimed)."""
import os, json, tomllib
VERIF = os.path.dirname(os.path.dirname(os.path.abspath(__file__)))
data = tomllib.load(open(os.path.join(VERIF, "obligations.toml"), "rb"))
props = data["property"]
obs = data["ob"]
ALL = ["C%02d" % i for i in range(1, 19)]
NA = data.get("not_applicable", {})
checks = []
for pid in ALL:
    if pid not in props or not any(o["prop"] == pid for o in obs):
        continue
    p = props[pid]
    mine = [o for o in obs if o["prop"] == pid]
    kinds = sorted({o["kind"] for o in mine})
    has_thorough = any(o.get("tier", "quick") == "thorough" for o in mine)
    c = {
        "property_id": pid,
        "quick_cmd": "bin/check %s --tier quick" % pid,
        "thorough_cmd": "bin/check %s --tier thorough" % pid,
        "evidence_file": "/verif/evidence/%s.json" % pid,
        "replay_cmd_template": "bin/check %s --replay {path}" % pid,
        "engine": "amv",
        "level_claimed": {"category": p.get("level", "proof"), "text": p["claim"], "design_ref": "DESIGN.md section 4, " + pid},
        "level_note": p["note"],
        "technique": p.get("technique", "contract-based deductive verification: Kani (CBMC) harness-contracts on the real crate + Verus on extracted functions; kinds " + ", ".join(kinds)),
    }
    checks.append(c)
man = {
    "version": 1,
    "setup_cmd": "bin/setup",
    "hooks": {
        "guard": "cfg(kani) / cfg(amv_replay) / cfg(amv_tsig) — applied by the overlay to a scratch copy of /repo's working tree on every run; /repo itself carries no hook",
        "enable": "bin/check rsyncs /repo's working tree to a scratch directory, appends `#[cfg(any(kani, amv_replay))] mod amv_h;` lines and cfg(kani)-guarded dependency stubs (overlay/manifest.toml), then runs cargo kani / verus on it",
        "baseline_off_cmd": "cd /repo && cargo test --workspace --no-fail-fast --offline",
        "source_commits": [],
        "add_only": True,
    },
    "engines": [{"name": "amv", "path": "engine/amv.py", "serves_properties": [c["property_id"] for c in checks],
                 "kind_free_text": "contract engine: overlay of harness-contracts on the real crate checked by Kani 0.68/CBMC, real functions extracted verbatim + requires/ensures checked by Verus, lemmas over contracts in Verus, counterexample replay on the natively compiled real crate"}],
    "checks": checks,
    "not_applicable": [{"property_id": pid, "reason": NA.get(pid, "check not built yet (work in progress in this session); nothing is claimed for it")}
                       for pid in ALL if pid not in [c["property_id"] for c in checks]],
    "notes": "See DESIGN.md. K-bounded and S-syntactic obligations are reported separately in the evidence and never counted as discharged proofs.",
}
json.dump(man, open(os.path.join(VERIF, "MANIFEST.json"), "w"), indent=1)
print("MANIFEST.json:", len(checks), "checks;", len(man["not_applicable"]), "not_applicable")
