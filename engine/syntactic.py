"""Structural (syntactic) obligations on extracted function text. Labelled S-syntactic, never counted as proofs."""
import re, os
import extract


def _fn_text(am, file, anchor):
    txt, rep = extract.extract_fn(am, file, anchor, "-", [], {}, set())
    return txt, rep


def c18_s1_single_rmw(am):
    """AtomicReloadId::update performs exactly one method call on self and it is fetch_max."""
    txt, rep = _fn_text(am, "src/entry.rs", "pub fn update(&self, new: ReloadId) -> bool {")
    body = txt[txt.index("{") + 1: txt.rindex("}")]
    calls = re.findall(r"self(?:\.0)?\.(\w+)\s*\(", body)
    ok = calls == ["fetch_max"]
    return ok, "AtomicReloadId::update must be exactly one atomic RMW (self.fetch_max); found calls on self: %s" % calls, "body: %s ; lines %s" % (" ".join(body.split()), rep["lines"])


def _slice(am, file, begin, end):
    lines = open(os.path.join(am, file)).read().split("\n")
    hits = [i for i, l in enumerate(lines) if l.strip() == begin]
    if not hits:
        raise extract.LostAnchor("anchor not found: %r" % begin)
    a = hits[0]
    b = extract._match_brace(lines, a)
    return "\n".join(lines[a:b + 1]), (a + 1, b + 1)


def c08_k4_ptr_arm_answers(am):
    """hot_reloading_thread: the Ptr arm runs update_if_local and then answers with the token it received."""
    txt, rng = _slice(am, "src/hot_reloading/mod.rs", "Ok(CacheMessage::Ptr(ptr, reloader, token)) => {", None)
    flat = " ".join(txt.split())
    iu = flat.find("cache.update_if_local(")
    ia = flat.find("answers.notify(token)")
    ok = iu >= 0 and ia > iu and flat.count("answers.notify(") == 1 and "return" not in flat and "continue" not in flat and "break" not in flat
    return ok, "the Ptr arm of hot_reloading_thread must call answers.notify(token) after cache.update_if_local(..) on every path; arm: %s" % flat, "lines %s-%s: %s" % (rng[0], rng[1], flat)
