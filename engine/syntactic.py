"""Structural (syntactic) obligations on extracted function text. Labelled S-syntactic, never counted as proofs."""
import re, os
import extract


def _fn_text(am, file, anchor):
    txt, rep = extract.extract_fn(am, file, anchor, "-", [], {}, set())
    return txt, rep


def c18_s1_single_rmw(am):
    """AtomicReloadId::update performs exactly one method call on self and it is fetch_max."""
    txt, rep = _fn_text(am, "src/entry.rs", "pub fn update(&self, new: ReloadId) -> bool {")
    body = txt[txt.index("{") + 1: txt.rindex("}")]
    calls = re.findall(r"self(?:\.0)?\.(\w+)\s*\(", body)
    ok = calls == ["fetch_max"]
    return ok, "AtomicReloadId::update must be exactly one atomic RMW (self.fetch_max); found calls on self: %s" % calls, "body: %s ; lines %s" % (" ".join(body.split()), rep["lines"])


def _slice(am, file, begin, end):
    lines = open(os.path.join(am, file)).read().split("\n")
    hits = [i for i, l in enumerate(lines) if l.strip() == begin]
    if not hits:
        raise extract.LostAnchor("anchor not found: %r" % begin)
    a = hits[0]
    b = extract._match_brace(lines, a)
    return "\n".join(lines[a:b + 1]), (a + 1, b + 1)


def c08_k4_ptr_arm_answers(am):
    """hot_reloading_thread: the Ptr arm runs update_if_local and then answers with the token it received."""
    txt, rng = _slice(am, "src/hot_reloading/mod.rs", "Ok(CacheMessage::Ptr(ptr, reloader, token)) => {", None)
    flat = " ".join(txt.split())
    iu = flat.find("cache.update_if_local(")
    ia = flat.find("answers.notify(token)")
    ok = iu >= 0 and ia > iu and flat.count("answers.notify(") == 1 and "return" not in flat and "continue" not in flat and "break" not in flat
    return ok, "the Ptr arm of hot_reloading_thread must call answers.notify(token) after cache.update_if_local(..) on every path; arm: %s" % flat, "lines %s-%s: %s" % (rng[0], rng[1], flat)


def c08_k5_visit_marks_before_recursing(am):
    """DepsGraph::visit inserts the node into `visited` before it recurses into the reverse dependencies
    (termination measure: number of unvisited nodes). The function itself is out of CBMC's reach (DESIGN.md 0.3)."""
    txt, rep = _fn_text(am, "src/hot_reloading/dependencies.rs", "fn visit(&self, sort_data: &mut TopologicalSortData, key: BorrowedDependency) {")
    flat = " ".join(l.split("//")[0] for l in txt.split("\n"))
    flat = " ".join(flat.split())
    i_ins = flat.find("sort_data.visited.insert(")
    i_rec = flat.find("self.visit(")
    i_chk = flat.find("sort_data.visited.contains(")
    ok = 0 <= i_chk < i_ins < i_rec and flat.count("self.visit(") == 1
    return ok, "DepsGraph::visit must check `visited`, then mark the node, and only then recurse (otherwise assets that look each other up recurse without bound): positions contains=%d insert=%d recurse=%d" % (i_chk, i_ins, i_rec), "lines %s: %s" % (rep["lines"], flat[:400])


def c14_s1_guards_restore_on_unwind(am):
    """record() and no_record() restore the recording cell through a drop guard bound BEFORE the closure runs, so that the
    cell is restored on every exit path including unwinding. Unwinding itself cannot be executed by Kani (panic=abort)."""
    msgs = []
    detail = []
    for anchor in ("pub(crate) fn record<F: FnOnce() -> T, T>(reloader: &HotReloader, f: F) -> (T, Dependencies) {",
                   "pub(crate) fn no_record<F: FnOnce() -> T, T>(f: F) -> T {"):
        txt, rep = _fn_text(am, "src/hot_reloading/records.rs", anchor)
        flat = " ".join(" ".join(l.split("//")[0] for l in txt.split("\n")).split())
        ig = flat.find("let _guard = CellGuard::replace(rec,")
        ic = flat.find("f()")
        ok = 0 <= ig < ic and ".set(" not in flat
        detail.append("%s: guard@%d call@%d" % (anchor.split("(")[1].split("<")[0] if False else anchor[14:23], ig, ic))
        if not ok:
            msgs.append("`%s` must install `let _guard = CellGuard::replace(rec, ..)` before calling the closure (restoration on every exit path, also by panic)" % anchor.split("fn ")[1].split("<")[0])
    return (not msgs), "; ".join(msgs), "; ".join(detail)
