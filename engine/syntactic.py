"""Structural (syntactic) obligations on extracted function text. Labelled S-syntactic, never counted as proofs."""
import re, os
import extract


def _fn_text(am, file, anchor):
    txt, rep = extract.extract_fn(am, file, anchor, "-", [], {}, set())
    return txt, rep


def c18_s1_single_rmw(am):
    """AtomicReloadId::update performs exactly one method call on self and it is fetch_max."""
    txt, rep = _fn_text(am, "src/entry.rs", "pub fn update(&self, new: ReloadId) -> bool {")
    body = txt[txt.index("{") + 1: txt.rindex("}")]
    calls = re.findall(r"self(?:\.0)?\.(\w+)\s*\(", body)
    ok = calls == ["fetch_max"]
    return ok, "AtomicReloadId::update must be exactly one atomic RMW (self.fetch_max); found calls on self: %s" % calls, "body: %s ; lines %s" % (" ".join(body.split()), rep["lines"])
