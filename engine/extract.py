"""Mechanical extraction of real items/functions from the scratch copy into a Verus unit.

Template directives (everything else in the template is copied as is):

  //@item <file> | <anchor line>                 copy the item that starts at the anchor line (attributes above
                                                 it included, doc comments dropped) up to its `;` or matching `}`
  //@fn <file> | <anchor line> | <ret name or ->  copy the function starting at the anchor line; the contract is the
  //@| <spec line>                                following `//@|` lines, spliced between signature and body; the
  //@loop <n>                                     `//@loop n` + `//@|` lines go between the n-th loop header and its `{`
  //@| <invariant line>
  //@end
  //@opt features=a,b                            feature set used to resolve #[cfg(feature = ..)] inside extracted text

Declared rewrites of the extracted text (complete list; each application is logged in the report):
  R1 drop `#[inline]`, `#[inline(always)]`, `#[cold]`, `#[track_caller]`, `#[allow(..)]`, `#[must_use]` lines
  R2 drop `///` and `//` comment lines
  R3 drop `log::<level>!( .. );` statements
  R4 resolve `#[cfg(feature = "..")]` / `#[cfg(not(feature = ".."))]` on the next statement/item for the unit's feature set
  R5 name the return value: `-> T {` becomes `-> (name: T)` followed by the contract
  R6 `debug_assert*!( .. );` statements dropped (compiled out in release; Verus has no model of them)
  R7 visibility `pub(crate)` / `pub(super)` widened to `pub` (single-file unit; Verus requires pub for open spec use)
Nothing else is changed; if Verus rejects the result the unit is a tool error (exit 2), never a violation.
"""
import os, re


class LostAnchor(Exception):
    pass


def _find_anchor(lines, anchor, nth=1, after=None):
    hits = [i for i, l in enumerate(lines) if l.strip() == anchor.strip() and (after is None or i > after)]
    if len(hits) < nth:
        raise LostAnchor("anchor not found: %r" % anchor)
    return hits[nth - 1]


def _match_brace(lines, start_line, start_col=0):
    """From the first '{' at/after (start_line,start_col) return index of the line holding the matching '}'."""
    depth = 0
    seen = False
    in_str = False
    i = start_line
    while i < len(lines):
        l = lines[i]
        j = start_col if i == start_line else 0
        # strip line comments
        while j < len(l):
            c = l[j]
            if in_str:
                if c == "\\":
                    j += 2
                    continue
                if c == '"':
                    in_str = False
            else:
                if c == '"':
                    in_str = True
                elif c == "'" and j + 2 < len(l) and (l[j + 2] == "'" or (l[j + 1] == "\\" and "'" in l[j + 2:j + 5])):
                    # char literal
                    k = l.index("'", j + 2 if l[j + 1] != "\\" else j + 3)
                    j = k
                elif c == "/" and j + 1 < len(l) and l[j + 1] == "/":
                    break
                elif c == "{":
                    depth += 1
                    seen = True
                elif c == "}":
                    depth -= 1
                    if seen and depth == 0:
                        return i
            j += 1
        i += 1
    raise LostAnchor("unbalanced braces from line %d" % (start_line + 1))


DROP_ATTR = re.compile(r"^\s*#\[(inline(\(always\))?|cold|track_caller|must_use|allow\([^\]]*\))\]\s*$")


def _rewrite(block_lines, feats, log):
    out = []
    i = 0
    n = len(block_lines)
    while i < n:
        l = block_lines[i]
        s = l.strip()
        if DROP_ATTR.match(l):
            log.append("R1 dropped %s" % s)
            i += 1
            continue
        if s.startswith("///") or s.startswith("//"):
            log.append("R2 dropped comment")
            i += 1
            continue
        m = re.match(r"^(log::\w+|debug_assert(_eq|_ne)?)!\(", s)
        if m:
            rule = "R3" if m.group(1).startswith("log") else "R6"
            # statement runs to the line that closes the macro with `);`
            j = i
            depth = 0
            while j < n:
                depth += block_lines[j].count("(") - block_lines[j].count(")")
                if depth <= 0:
                    break
                j += 1
            log.append("%s dropped %s statement (%d lines)" % (rule, m.group(1), j - i + 1))
            i = j + 1
            continue
        m = re.match(r'^#\[cfg\((not\()?feature = "([\w-]+)"\)?\)\]$', s)
        if m:
            enabled = (m.group(2) in feats) != bool(m.group(1))
            if enabled:
                log.append("R4 cfg %s enabled: attribute dropped" % s)
                i += 1
                continue
            # drop the attribute and the statement/item that follows
            j = i + 1
            if "{" in block_lines[j] and not block_lines[j].rstrip().endswith("}") or block_lines[j].rstrip().endswith("{"):
                k = _match_brace(block_lines, j)
            else:
                k = j
                while not re.search(r"[;,}]\s*$", block_lines[k]):
                    k += 1
            log.append("R4 cfg %s disabled: %d lines dropped" % (s, k - i + 1))
            i = k + 1
            continue
        if re.match(r"^\s*pub\((crate|super)\)\s", l):
            l = re.sub(r"pub\((crate|super)\)", "pub", l, count=1)
            log.append("R7 visibility widened to pub")
        out.append(l)
        i += 1
    return out


def extract_item(am, file, anchor, feats, nth=1):
    p = os.path.join(am, file)
    if not os.path.exists(p):
        raise LostAnchor("file missing: " + file)
    lines = open(p).read().split("\n")
    a = _find_anchor(lines, anchor, nth)
    first = a
    while first > 0 and (lines[first - 1].strip().startswith("#[") or lines[first - 1].strip().startswith("///")):
        first -= 1
    if lines[a].rstrip().endswith(";"):
        b = a
    else:
        b = _match_brace(lines, a)
    log = []
    block = _rewrite(lines[first:b + 1], feats, log)
    return "\n".join(block), {"file": file, "lines": [first + 1, b + 1], "rewrites": log}


def extract_fn(am, file, anchor, ret, spec, loops, feats, nth=1):
    p = os.path.join(am, file)
    if not os.path.exists(p):
        raise LostAnchor("file missing: " + file)
    lines = open(p).read().split("\n")
    a = _find_anchor(lines, anchor, nth)
    # signature: up to the first line that ends with '{'
    s_end = a
    while not lines[s_end].rstrip().endswith("{"):
        s_end += 1
        if s_end > a + 12:
            raise LostAnchor("signature of %r does not end in '{' within 12 lines" % anchor)
    b = _match_brace(lines, s_end, len(lines[s_end].rstrip()) - 1)
    log = []
    sig = "\n".join(lines[a:s_end + 1]).rstrip()
    assert sig.endswith("{")
    sig = sig[:-1].rstrip()
    if ret and ret != "-":
        m = re.search(r"->\s*(.+)$", sig.split("\n")[-1]) if "->" in sig.split("\n")[-1] else re.search(r"->\s*(.+)$", sig, re.S)
        if not m:
            raise LostAnchor("no return type to name in %r" % anchor)
        ty = m.group(1).strip()
        where = ""
        wm = re.search(r"\bwhere\b", ty)
        if wm:
            where = " " + ty[wm.start():]
            ty = ty[:wm.start()].strip()
        sig = sig[:sig.rfind("->")] + "-> (%s: %s)%s" % (ret, ty, where)
        log.append("R5 return value named `%s`" % ret)
    body = _rewrite(lines[s_end + 1:b], feats, log)
    # loop invariants by ordinal
    if loops:
        ordn = 0
        nb = []
        for l in body:
            if re.match(r"^\s*(for\b.*\bin\b.*|while\b.*|loop)\s*\{\s*$", l):
                ordn += 1
                if ordn in loops:
                    ind = re.match(r"^\s*", l).group(0)
                    nb.append(l.rstrip()[:-1].rstrip())
                    for il in loops[ordn]:
                        nb.append(ind + "    " + il)
                    nb.append(ind + "{")
                    log.append("loop %d: invariant spliced" % ordn)
                    continue
            nb.append(l)
        for k in loops:
            if k > ordn:
                raise LostAnchor("loop ordinal %d not found in %r" % (k, anchor))
        body = nb
    ind = re.match(r"^\s*", lines[a]).group(0)
    out = [sig] + [ind + "    " + s for s in spec] + [ind + "{"] + body + [lines[b]]
    return "\n".join(out), {"file": file, "fn": anchor.strip(), "lines": [a + 1, b + 1], "rewrites": log}


def build_unit(template_path, am):
    tl = open(template_path).read().split("\n")
    out = []
    report = []
    feats = set()
    i = 0
    while i < len(tl):
        l = tl[i]
        s = l.strip()
        if s.startswith("//@opt"):
            m = re.search(r"features=([\w,-]*)", s)
            if m:
                feats = set(x for x in m.group(1).split(",") if x)
            i += 1
            continue
        if s.startswith("//@item"):
            parts = [x.strip() for x in s[len("//@item"):].split(" | ")]
            nth = 1
            if len(parts) > 2 and parts[2].startswith("nth="):
                nth = int(parts[2][4:])
            txt, rep = extract_item(am, parts[0], parts[1], feats, nth)
            out.append(txt)
            report.append(rep)
            i += 1
            continue
        if s.startswith("//@fn"):
            parts = [x.strip() for x in s[len("//@fn"):].split(" | ")]
            file, anchor = parts[0], parts[1]
            ret = parts[2] if len(parts) > 2 else "-"
            nth = 1
            for extra in parts[3:]:
                if extra.startswith("nth="):
                    nth = int(extra[4:])
            spec, loops, curloop = [], {}, None
            i += 1
            while not tl[i].strip().startswith("//@end"):
                t = tl[i].strip()
                if t.startswith("//@loop"):
                    curloop = int(t.split()[1])
                    loops[curloop] = []
                elif t.startswith("//@|"):
                    (loops[curloop] if curloop else spec).append(t[4:].strip() if t[4:].strip() else "")
                else:
                    raise LostAnchor("bad line inside //@fn block of template: " + t)
                i += 1
            txt, rep = extract_fn(am, file, anchor, ret, spec, loops, feats, nth)
            out.append(txt)
            report.append(rep)
            i += 1
            continue
        out.append(l)
        i += 1
    return "\n".join(out) + "\n", report
