#!/usr/bin/env python3
"""amv — contract engine for assets_manager (Kani + Verus), see /verif/DESIGN.md.

usage: amv.py <PROPERTY> [--tier quick|thorough] [--replay FILE] [--only OBL[,OBL]] [--keep]

exit 0  every obligation of the property discharged (or only KNOWN-FINDINGs)
exit 1  at least one obligation violated  -> line  VIOLATION property=<id> replay=<path>
exit 2  tool error / undecided (lost anchor, timeout, unsupported construct, canary wrong)
"""
import sys, os, re, json, time, shutil, subprocess, hashlib, tomllib, fcntl, signal, resource
from concurrent.futures import ThreadPoolExecutor

VERIF = os.path.dirname(os.path.dirname(os.path.abspath(__file__)))
REPO = os.environ.get("AMV_REPO", "/repo")
sys.path.insert(0, os.path.join(VERIF, "engine"))
import extract  # noqa: E402

ENV = dict(os.environ, CARGO_NET_OFFLINE="true", CARGO_TERM_COLOR="never", RUST_BACKTRACE="0")
ENV.pop("RUSTFLAGS", None)

PROOF_KINDS = {"K-complete", "K-inductive", "V-fn", "V-lemma", "T-sig"}
OTHER_KINDS = {"K-bounded", "S-syntactic"}


def log(*a):
    print("[amv]", *a, file=sys.stderr, flush=True)


class ToolError(Exception):
    pass


# ----------------------------------------------------------------------------------------------
# obligations table
# ----------------------------------------------------------------------------------------------
def load_obligations():
    with open(os.path.join(VERIF, "obligations.toml"), "rb") as f:
        data = tomllib.load(f)
    obs = data["ob"]
    seen = set()
    for o in obs:
        assert o["id"] not in seen, "duplicate obligation " + o["id"]
        seen.add(o["id"])
        o.setdefault("tier", "quick")
        o.setdefault("features", "")
        o.setdefault("flags", [])
        o.setdefault("timeout", 600)
        o.setdefault("replay", "none")
        o.setdefault("functions", [])
        o.setdefault("bound", "")
        o.setdefault("assumes", [])
        o.setdefault("covers", True)
        o.setdefault("mem_gb", 4)
        assert o["kind"] in PROOF_KINDS | OTHER_KINDS, o["kind"]
        assert o["backend"] in ("kani", "verus", "tsig", "syntactic"), o["backend"]
    return data.get("property", {}), obs


# ----------------------------------------------------------------------------------------------
# scratch copy + overlay
# ----------------------------------------------------------------------------------------------
def sha256_file(p):
    h = hashlib.sha256()
    with open(p, "rb") as f:
        h.update(f.read())
    return h.hexdigest()


def make_scratch(tag):
    base = os.environ.get("AMV_SCRATCH", "/tmp")
    d = os.path.join(base, "amv.%s.%d" % (tag, os.getpid()))
    if os.path.exists(d):
        shutil.rmtree(d)
    os.makedirs(d)
    am = os.path.join(d, "am")
    subprocess.run(["rsync", "-a", "--exclude", "/target", "--exclude", "/.git", "--exclude", "/crates/*/target",
                    REPO + "/", am + "/"], check=True)
    return d, am


def apply_overlay(am):
    """Applies overlay/manifest.toml to the scratch copy. Returns the overlay report (dict)."""
    with open(os.path.join(VERIF, "overlay", "manifest.toml"), "rb") as f:
        man = tomllib.load(f)
    report = {"appended": [], "replaced": [], "copied": [], "slices": []}
    hdir = os.path.join(am, "src", "amv_h")
    os.makedirs(hdir, exist_ok=True)
    # 1. copy support + harness files
    for root, _dirs, files in os.walk(os.path.join(VERIF, "overlay", "src")):
        for fn in files:
            rel = os.path.relpath(os.path.join(root, fn), os.path.join(VERIF, "overlay", "src"))
            dst = os.path.join(hdir, rel)
            os.makedirs(os.path.dirname(dst), exist_ok=True)
            shutil.copy(os.path.join(root, fn), dst)
            report["copied"].append("src/amv_h/" + rel)
    # 2. literal replacements of dependency-binding `use` lines
    for r in man.get("replace", []):
        p = os.path.join(am, r["file"])
        if not os.path.exists(p):
            raise ToolError("LOST-ANCHOR %s (file %s missing)" % (r["name"], r["file"]))
        txt = open(p).read()
        if txt.count(r["old"]) != 1:
            raise ToolError("LOST-ANCHOR %s (%d occurrences in %s)" % (r["name"], txt.count(r["old"]), r["file"]))
        txt = txt.replace(r["old"], r["new"])
        open(p, "w").write(txt)
        report["replaced"].append({"name": r["name"], "file": r["file"]})
    # 2b. generic: any other import of std's hash_map::Entry is bound to the map stub under cfg(kani)
    #     (a changed tree may import it in a file the manifest does not anchor; without this the overlay would not compile)
    for root, _d, files in os.walk(os.path.join(am, "src")):
        if "amv_h" in root:
            continue
        for fn in files:
            if not fn.endswith(".rs"):
                continue
            p = os.path.join(root, fn)
            txt = open(p).read()
            new = txt
            for m in list(re.finditer(r"^use std::\{[^;]*\};", new, re.M)):
                stmt = m.group(0)  # single- or multi-line `use std::{ .. };`
                if re.search(r"\bcollections::hash_map::Entry\b", stmt) and "vmap" not in stmt:
                    kept = re.sub(r"[ \t]*collections::hash_map::Entry,?[ \t]*\n?", "", stmt)
                    kept = re.sub(r",\s*\};$", "};", kept) if "\n" not in kept else kept
                    rep = kept + "\n#[cfg(not(kani))]\nuse std::collections::hash_map::Entry;\n#[cfg(kani)]\nuse crate::amv::vmap::Entry;"
                    new = new.replace(stmt, rep)
            new2 = re.sub(r"^use std::collections::hash_map::Entry;$", "#[cfg(not(kani))]\nuse std::collections::hash_map::Entry;\n#[cfg(kani)]\nuse crate::amv::vmap::Entry;", new, flags=re.M) if "#[cfg(not(kani))]\nuse std::collections::hash_map::Entry;" not in new else new
            if new2 != txt:
                open(p, "w").write(new2)
                report["replaced"].append({"name": "generic hash_map::Entry binding", "file": os.path.relpath(p, am)})
    # 2d. crate-level feature gates needed by harness stubs only (cfg_attr(kani, ..): no effect on any other build)
    for c in man.get("prepend", []):
        p = os.path.join(am, c["file"])
        txt = open(p).read()
        open(p, "w").write(c["line"] + "\n" + txt)
        report.setdefault("prepended", []).append({"file": c["file"], "line": c["line"]})
    # 2c. true Kani function contracts: attribute lines inserted above an anchored signature line
    for c in man.get("contract", []):
        p = os.path.join(am, c["file"])
        lines = open(p).read().split("\n")
        hits = [i for i, l in enumerate(lines) if l.strip() == c["anchor"].strip()]
        nth = c.get("nth", 1)
        if len(hits) < nth:
            raise ToolError("LOST-ANCHOR contract %s" % c["name"])
        i = hits[nth - 1]
        ind = re.match(r"^\s*", lines[i]).group(0)
        lines[i:i] = [ind + a for a in c["attrs"]]
        open(p, "w").write("\n".join(lines))
        report.setdefault("contracts", []).append({"name": c["name"], "file": c["file"], "line": i + 1, "attrs": c["attrs"]})
    # 3. statement slices (verbatim runs of source lines copied into a generated wrapper)
    for s in man.get("slice", []):
        p = os.path.join(am, s["file"])
        lines = open(p).read().split("\n")
        try:
            a = next(i for i, l in enumerate(lines) if l.strip() == s["begin"].strip())
            b = next(i for i, l in enumerate(lines) if i > a and l.strip() == s["end"].strip())
        except StopIteration:
            raise ToolError("LOST-ANCHOR slice %s" % s["name"])
        body = "\n".join(lines[a + s.get("begin_offset", 0): b + s.get("end_offset", 0)])
        for (old, new) in s.get("rewrite", []):
            body = body.replace(old, new)
        out = s["template"].replace("/*SLICE*/", body)
        open(os.path.join(hdir, s["out"]), "w").write(out)
        report["slices"].append({"name": s["name"], "file": s["file"], "lines": [a + 1 + s.get("begin_offset", 0), b + s.get("end_offset", 0)],
                                 "sha256": hashlib.sha256(body.encode()).hexdigest()})
    # 4. append child-module declarations
    for m in man.get("module", []):
        p = os.path.join(am, m["file"])
        if not os.path.exists(p):
            raise ToolError("LOST-ANCHOR module host %s" % m["file"])
        depth = m["file"].count("/") - 1  # src/x.rs -> 0 ; src/a/x.rs -> 1
        rel = "../" * depth + "amv_h/" + m["src"]
        cfg = m.get("cfg", "any(kani, amv_replay)")
        line = '\n#[cfg(%s)]\n#[path = "%s"]\npub(crate) mod %s;\n' % (cfg, rel, m["mod"])
        with open(p, "a") as f:
            f.write(line)
        report["appended"].append({"file": m["file"], "mod": m["mod"]})
    # 5. visibility nudges: none. cargo config
    os.makedirs(os.path.join(am, ".cargo"), exist_ok=True)
    with open(os.path.join(am, ".cargo", "config.toml"), "w") as f:
        f.write("[net]\noffline = true\n")
    return report


# ----------------------------------------------------------------------------------------------
# Kani
# ----------------------------------------------------------------------------------------------
def harness_index(am):
    """harness fn name -> (module path, file) by scanning src/amv_h/*.rs; also which mod hosts which file."""
    with open(os.path.join(VERIF, "overlay", "manifest.toml"), "rb") as f:
        man = tomllib.load(f)
    idx = {}
    for m in man.get("module", []):
        host = m["file"][len("src/"):-3]  # entry  |  hot_reloading/mod | utils/bytes
        parts = [p for p in host.split("/") if p not in ("mod", "lib")]
        modpath = "::".join(parts + [m["mod"]])
        src = os.path.join(am, "src", "amv_h", m["src"])
        txt = open(src).read()
        # inline nested modules `mod name { .. }` of the harness file contribute to the harness path
        spans = []
        lines = txt.split("\n")
        offs = [0]
        for l in lines:
            offs.append(offs[-1] + len(l) + 1)
        for li, l in enumerate(lines):
            mm = re.match(r"^\s*(?:pub(?:\(crate\))?\s+)?mod\s+(\w+)\s*\{\s*$", l)
            if mm:
                try:
                    end = extract._match_brace(lines, li)
                    spans.append((offs[li], offs[end + 1], mm.group(1)))
                except Exception:
                    pass

        def qual(pos, name):
            inner = [s[2] for s in sorted(spans) if s[0] <= pos < s[1]]
            return "::".join([modpath] + inner + [name])
        for mm in re.finditer(r"kani::proof(?:_for_contract\([^)]*\))?\)?\]\s*(?:#\[[^\]]*\]\s*)*(?:pub(?:\(crate\))?\s+)?fn\s+(\w+)\s*\(", txt):
            name = mm.group(1)
            if name in idx:
                raise ToolError("duplicate harness name " + name)
            idx[name] = qual(mm.start(), name)
        # instances generated by the `instances! { name => body; .. }` macros of the harness modules:
        # names are the `ident =>` entries at brace depth 1 of each invocation block
        for li, l in enumerate(lines):
            if not re.match(r"^\s*(?:\w+_)?instances!\s*\{\s*$", l) or l.lstrip().startswith("macro_rules"):
                continue
            try:
                end = extract._match_brace(lines, li)
            except Exception:
                continue
            depth = 0
            for k in range(li, end + 1):
                s = lines[k]
                if depth == 1:
                    mm = re.match(r"^\s*(\w+)\s*(?:/\s*\d+\s*)?=>", s)
                    if mm:
                        name = mm.group(1)
                        if name in idx:
                            raise ToolError("duplicate harness name " + name)
                        idx[name] = qual(offs[k], name)
                code = re.sub(r'"(?:[^"\\]|\\.)*"', '""', s)
                code = code.split("//")[0]
                depth += code.count("{") - code.count("}")
    return idx


def expand_harnesses(o, hidx):
    """An obligation names one harness, a list, or a prefix glob `name*` (all generated instances)."""
    import fnmatch
    hs = o["harness"] if isinstance(o["harness"], list) else [o["harness"]]
    out = []
    for h in hs:
        if "*" in h:
            m = sorted(n for n in hidx if fnmatch.fnmatchcase(n, h))
            if not m:
                raise ToolError("harness pattern %s of %s matches nothing" % (h, o["id"]))
            out += m
        else:
            if h not in hidx:
                raise ToolError("harness %s of %s not found in overlay" % (h, o["id"]))
            out.append(h)
    return out


def limit_mem(gb):
    def f():
        os.setsid()  # own process group so that a timeout kills cargo-kani's children too
        # a runaway CBMC (one graph harness grew to 65 GB and was OOM-killed by the kernel) must fail by itself
        # (-> "out of memory" -> UNDECIDED) instead of taking the machine down: cap the address space per process (56 GB of the 62 GB machine)
        lim = int(os.environ.get("AMV_AS_LIMIT_GB", "56")) << 30
        try:
            resource.setrlimit(resource.RLIMIT_AS, (lim, lim))
        except Exception:
            pass
    return f


def run_cmd(cmd, cwd, timeout, env=None, mem_gb=None):
    t0 = time.time()
    p = subprocess.Popen(cmd, cwd=cwd, env=env or ENV, stdout=subprocess.PIPE, stderr=subprocess.STDOUT, text=True,
                         preexec_fn=limit_mem(mem_gb))
    try:
        out, _ = p.communicate(timeout=timeout)
        return p.returncode, out, time.time() - t0, False
    except subprocess.TimeoutExpired:
        try:
            os.killpg(p.pid, signal.SIGKILL)
        except ProcessLookupError:
            pass
        out, _ = p.communicate()
        return -9, out, time.time() - t0, True


def parse_kani_output(out):
    """Returns {full harness path: {status, failed_checks, covers, time, text}}"""
    res = {}
    cur = {}  # thread -> harness
    blocks = {}  # harness -> list of lines
    active = None
    for line in out.split("\n"):
        m = re.match(r"^(?:Thread (\d+): )?Checking harness ([\w:]+)\.\.\.", line)
        if m:
            th = m.group(1) or "0"
            cur[th] = m.group(2)
            blocks.setdefault(m.group(2), [])
            active = m.group(2) if m.group(1) is None else None
            continue
        m = re.match(r"^Thread (\d+):\s*$", line)
        if m:
            active = cur.get(m.group(1))
            continue
        if line.startswith("Manual Harness Summary") or line.startswith("Complete - "):
            active = None
            continue
        if active is not None:
            blocks[active].append(line)
    for h, lines in blocks.items():
        text = "\n".join(lines)
        r = {"status": "unknown", "failed_checks": [], "covers": None, "time": None, "text": text[-6000:]}
        m = re.search(r"Verification Time: ([\d.]+)s", text)
        if m:
            r["time"] = float(m.group(1))
        m = re.search(r"\*\* (\d+) of (\d+) cover properties satisfied", text)
        if m:
            r["covers"] = (int(m.group(1)), int(m.group(2)))
        m = re.search(r"\*\* (\d+) of (\d+) failed", text)
        if m:
            r["checks"] = int(m.group(2))
        for fm in re.finditer(r"Failed Checks: (.*)\n(?: File: \"([^\"]*)\", line (\d+), in (\S+))?", text):
            r["failed_checks"].append({"msg": fm.group(1).strip(), "file": fm.group(2), "line": fm.group(3), "fn": fm.group(4)})
        if "encountered no panics, but at least one was expected" in text:
            r["failed_checks"].append({"msg": "the operation was expected to panic (refuse) but completed", "file": None, "line": None, "fn": None})
        if "VERIFICATION:- SUCCESSFUL" in text:
            r["status"] = "success"
        elif "VERIFICATION:- FAILED" in text:
            r["status"] = "failed"
        elif "CBMC failed" in text or "out of memory" in text.lower() or "CBMC timed out" in text:
            r["status"] = "tool"
        res[h] = r
    return res


def kani_group_key(o):
    return (o["features"], tuple(o["flags"]), o.get("map_cap", 4))


def set_map_cap(am, cap):
    p = os.path.join(am, "src", "amv_h", "vmap.rs")
    txt = open(p).read()
    new = re.sub(r"^pub const CAP: usize = \d+;", "pub const CAP: usize = %d;" % cap, txt, flags=re.M)
    if new != txt:
        open(p, "w").write(new)


def run_kani_group(am, tdir, feats, flags, obs, hidx, jobs, extra=None):
    """One cargo-kani invocation for all harnesses of the group. Returns {obl id: aggregated result}."""
    cmd = ["cargo", "kani", "--no-default-features"]
    if feats:
        cmd += ["--features", feats]
    cmd += ["-Z", "stubbing", "-Z", "function-contracts", "--output-format", "terse"]
    cmd += list(flags)
    per_ob = {}
    n = 0
    for o in obs:
        per_ob[o["id"]] = expand_harnesses(o, hidx)
        for h in per_ob[o["id"]]:
            cmd += ["--harness", hidx[h]]
            n += 1
    cmd += ["--exact"]
    if n > 1 and jobs > 1:
        cmd += ["-j", str(min(jobs, n))]
    if extra:
        cmd += extra
    par = max(1, min(jobs, n))
    timeout = int(sum(o["timeout"] * len(per_ob[o["id"]]) for o in obs) / par) + max(o["timeout"] for o in obs) + 240
    env = dict(ENV, CARGO_TARGET_DIR=tdir)
    log("kani group features=[%s] flags=%s obligations=%d harnesses=%d -j %d" % (feats, " ".join(flags), len(obs), n, par))
    rc, out, dt, timed_out = run_cmd(cmd, am, timeout, env)
    parsed = parse_kani_output(out)
    results = {}
    for o in obs:
        agg = {"status": "success", "failed_checks": [], "covers": None, "time": 0.0, "text": "", "checks": 0, "instances": [], "failed_harness": None}
        cs = ct = 0
        for h in per_ob[o["id"]]:
            full = hidx[h]
            r = parsed.get(full)
            if r is None:
                cerr = re.findall(r"^error(?:\[E\d+\])?: .*$", out, re.M)
                r = {"status": "tool", "failed_checks": [], "covers": None, "time": None,
                     "text": ("timeout after %ds" % timeout) if timed_out else ("no result block for %s; " % h + "; ".join(cerr[:5]) + "\n" + out[-2000:])}
            elif r["status"] == "unknown":
                r["status"] = "tool"
                r["text"] = ("timeout " if timed_out else "no verdict ") + r["text"][-1500:]
            agg["instances"].append({"harness": h, "status": r["status"], "time": r.get("time"), "checks": r.get("checks")})
            agg["time"] += r.get("time") or 0.0
            agg["checks"] += r.get("checks") or 0
            if r.get("covers"):
                cs += r["covers"][0]; ct += r["covers"][1]
            if r["status"] == "failed":
                if agg["status"] != "failed":
                    agg["failed_harness"] = h
                    agg["text"] = r["text"]
                agg["status"] = "failed"
                for fc in r["failed_checks"]:
                    fc = dict(fc, harness=h)
                    agg["failed_checks"].append(fc)
            elif r["status"] == "tool" and agg["status"] == "success":
                agg["status"] = "tool"
                agg["text"] = "%s: %s" % (h, r["text"])
        if ct:
            agg["covers"] = (cs, ct)
        results[o["id"]] = agg
    return results, out, dt, " ".join(cmd)


def playback_values(am, tdir, feats, flags, full_harness):
    cmd = ["cargo", "kani", "--no-default-features"]
    if feats:
        cmd += ["--features", feats]
    cmd += ["-Z", "stubbing", "-Z", "function-contracts", "--output-format", "terse"] + list(flags)
    cmd += ["--harness", full_harness, "--exact", "-Z", "concrete-playback", "--concrete-playback=print"]
    rc, out, dt, to = run_cmd(cmd, am, 900, dict(ENV, CARGO_TARGET_DIR=tdir))
    m = re.search(r"let concrete_vals: Vec<Vec<u8>> = vec!\[(.*?)\n\s*\];", out, re.S)
    if not m:
        return None, out[-3000:]
    vals = []
    for vm in re.finditer(r"vec!\[([\d,\s]*)\]", m.group(1)):
        body = vm.group(1).strip()
        vals.append([int(x) for x in body.split(",") if x.strip()] if body else [])
    return vals, out[-3000:]


def native_replay(am, tdir, feats, full_harness, vals):
    """Builds the scratch copy natively with real dependencies and runs the harness body on the values."""
    vf = os.path.join(os.path.dirname(am), "replay_values.txt")
    with open(vf, "w") as f:
        for v in vals:
            f.write(" ".join(str(b) for b in v) + "\n")
    cmd = ["cargo", "test", "--offline", "--lib", "--no-default-features"]
    if feats:
        cmd += ["--features", feats]
    cmd += ["--", "--exact", full_harness, "--test-threads", "1", "--nocapture"]
    env = dict(ENV, CARGO_TARGET_DIR=tdir + "-native", RUSTFLAGS="--cfg amv_replay -A warnings", AMV_REPLAY_VALUES=vf)
    rc, out, dt, to = run_cmd(cmd, am, 900, env)
    ran = re.search(r"running 1 test", out) is not None
    failed = ran and re.search(r"test result: FAILED", out) is not None
    crashed = ran and rc != 0 and not re.search(r"test result: ", out)
    return {"ran": ran, "reproduced": bool(failed or crashed), "rc": rc, "output": out[-4000:]}


# ----------------------------------------------------------------------------------------------
# Verus
# ----------------------------------------------------------------------------------------------
def run_verus_unit(am, sdir, o):
    unit = os.path.join(VERIF, "verus", o["unit"])
    outp = os.path.join(sdir, "verus_" + os.path.basename(o["unit"]).replace(".tmpl", ""))
    try:
        text, xreport = extract.build_unit(unit, am)
    except extract.LostAnchor as e:
        raise ToolError("LOST-ANCHOR verus %s: %s" % (o["unit"], e))
    open(outp, "w").write(text)
    rc, out, dt, to = run_cmd(["verus", outp, "--output-json", "--time", "--multiple-errors", "10"], sdir, o["timeout"], ENV)
    r = {"status": "tool", "failed_checks": [], "time": dt, "text": out[-5000:], "extract": xreport, "unit_sha256": hashlib.sha256(text.encode()).hexdigest()}
    jm = re.search(r"^\{\s*$.*", out, re.S | re.M)
    verified = errors = None
    smt = None
    if jm:
        try:
            j = json.loads(out[jm.start():])
            vr = j.get("verification-results", {})
            verified, errors = vr.get("verified"), vr.get("errors")
            tm = j.get("times-ms", {})
            smt = tm.get("smt", {}).get("total") if isinstance(tm.get("smt"), dict) else None
            r["times_ms"] = {"total": tm.get("total"), "smt": smt}
        except Exception:
            pass
    r["verified"], r["errors"] = verified, errors
    if to:
        r["text"] = "timeout"
        return r
    errs = re.findall(r"^error: (.*)$", out, re.M)
    errs = [e for e in errs if not e.startswith("aborting due to")]
    hard = [e for e in errs if re.search(r"unsupported|not supported|cannot find|expected|mismatched|unresolved|is not allowed|Verus does not|syntax", e)]
    if verified is not None and errors == 0 and rc == 0 and verified >= o.get("min_verified", 1):
        r["status"] = "success"
    elif verified is not None and errors and not hard:
        r["status"] = "failed"
        for em in re.finditer(r"^error: (.*)\n\s*--> [^:\n]*:(\d+):\d+\n(?:.*\n){0,2}?\s*\d+ \|\s*(.*)$", out, re.M):
            if em.group(1).startswith("aborting"):
                continue
            r["failed_checks"].append({"msg": em.group(1) + " :: " + em.group(3).strip()[:160], "line": em.group(2)})
        if not r["failed_checks"]:
            r["failed_checks"] = [{"msg": e} for e in errs[:5]]
    else:
        r["status"] = "tool"
        r["text"] = "verus could not process the unit (unsupported construct / compile error, NOT a violation): " + " | ".join(errs[:4]) if errs else r["text"][:600]
    return r


# ----------------------------------------------------------------------------------------------
# T-sig / syntactic obligations
# ----------------------------------------------------------------------------------------------
def run_syntactic(am, o):
    import syntactic
    fn = getattr(syntactic, o["checker"])
    try:
        ok, msg, detail = fn(am)
    except extract.LostAnchor as e:
        raise ToolError("LOST-ANCHOR syntactic %s: %s" % (o["id"], e))
    return {"status": "success" if ok else "failed", "failed_checks": [] if ok else [{"msg": msg}], "time": 0.0, "text": detail}


def run_tsig(am, tdir, obs):
    """Each T-sig obligation is a `const _: fn(..) = path;` item in src/amv_h/tsig_<id>.rs compiled with cargo check.
    A compile error located inside that file = obligation failed; any other compile error = tool error."""
    results = {}
    feats = sorted(set(o["features"] for o in obs))
    for feat in feats:
        group = [o for o in obs if o["features"] == feat]
        cmd = ["cargo", "check", "--offline", "--lib", "--no-default-features", "--message-format", "short"]
        if feat:
            cmd += ["--features", feat]
        env = dict(ENV, CARGO_TARGET_DIR=tdir + "-native", RUSTFLAGS="--cfg amv_tsig -A warnings")
        rc, out, dt, to = run_cmd(cmd, am, 900, env)
        errs = re.findall(r"^(\S+?):(\d+):\d+: error(?:\[E\d+\])?: (.*)$", out, re.M)
        for o in group:
            mine = [e for e in errs if e[0].endswith("amv_h/" + o["unit"])]
            # the lines of the unit belonging to this obligation are tagged `// <id>`
            src = open(os.path.join(am, "src", "amv_h", o["unit"])).read().split("\n")
            tagged = {i + 1 for i, l in enumerate(src) if re.search(r"//.*\b" + re.escape(o["id"]) + r"\b", l)}
            hit = [e for e in mine if int(e[1]) in tagged]
            other = [e for e in errs if not e[0].endswith("amv_h/" + o["unit"])]
            if not tagged:
                results[o["id"]] = {"status": "tool", "failed_checks": [], "time": dt, "text": "no tagged lines for " + o["id"]}
            elif hit:
                results[o["id"]] = {"status": "failed", "time": dt, "text": out[-3000:],
                                    "failed_checks": [{"msg": "signature obligation no longer type-checks: " + e[2], "line": e[1]} for e in hit]}
            elif rc != 0 and (other or to or not errs):
                results[o["id"]] = {"status": "tool", "failed_checks": [], "time": dt, "text": "compile error outside the T-sig unit: " + out[-2000:]}
            else:
                results[o["id"]] = {"status": "success", "failed_checks": [], "time": dt, "text": "type-checks (%d tagged lines)" % len(tagged)}
    return results


# ----------------------------------------------------------------------------------------------
# known findings
# ----------------------------------------------------------------------------------------------
def load_known():
    p = os.path.join(VERIF, "known_findings.json")
    if not os.path.exists(p):
        return []
    return json.load(open(p)).get("findings", [])


def match_known(known, prop, oid, failed_checks):
    """All failed checks of this obligation must be covered by `known` entries (status == known) to be suppressed."""
    ks = [k for k in known if k.get("status") == "known" and k["property"] == prop and k["obligation"] == oid]
    if not ks or not failed_checks:
        return None
    used = []
    for fc in failed_checks:
        hit = next((k for k in ks if re.search(k["check_regex"], fc["msg"])), None)
        if hit is None:
            return None
        if hit not in used:
            used.append(hit)
    return used


# ----------------------------------------------------------------------------------------------
# scan for assumptions in the overlay (trusted base listing)
# ----------------------------------------------------------------------------------------------
def scan_trusted():
    found = []
    pats = [r"kani::assume", r"kani::stub\(", r"external_body", r"assume_specification", r"admit\(", r"assume\(", r"external_type_specification", r"uninterp spec"]
    for base in ("overlay/src", "verus"):
        for root, _d, files in os.walk(os.path.join(VERIF, base)):
            for fn in sorted(files):
                p = os.path.join(root, fn)
                try:
                    txt = open(p).read()
                except Exception:
                    continue
                for pat in pats:
                    n = len(re.findall(pat, txt))
                    if n:
                        found.append("%s: %d x %s" % (os.path.relpath(p, VERIF), n, pat.replace("\\", "")))
    return found


# ----------------------------------------------------------------------------------------------
# main
# ----------------------------------------------------------------------------------------------
def main():
    args = sys.argv[1:]
    if not args:
        print(__doc__)
        return 2
    prop = args[0]
    tier = os.environ.get("VERIF_TIER", "quick")
    replay_file = None
    only = None
    keep = False
    i = 1
    while i < len(args):
        if args[i] == "--tier":
            tier = args[i + 1]; i += 2
        elif args[i] == "--replay":
            replay_file = args[i + 1]; i += 2
        elif args[i] == "--only":
            only = set(args[i + 1].split(",")); i += 2
        elif args[i] == "--keep":
            keep = True; i += 1
        elif args[i] == "--prepare-only":
            # developer aid: build the scratch copy + overlay and print its path
            sdir, am = make_scratch(prop + ".dev")
            apply_overlay(am)
            print(am)
            return 0
        else:
            print("unknown argument", args[i]); return 2
    seed = int(os.environ.get("VERIF_SEED", "0") or 0)
    jobs = int(os.environ.get("AMV_JOBS", "8"))
    t_start = time.time()
    props, all_obs = load_obligations()
    if prop not in props:
        print("unknown property", prop); return 2
    obs = [o for o in all_obs if o["prop"] == prop and (tier == "thorough" or o["tier"] == "quick")]
    if replay_file:
        rj = json.load(open(replay_file))
        only = {rj["obligation"]}
        obs = [o for o in all_obs if o["id"] in only]
    elif only:
        obs = [o for o in obs if o["id"] in only]
    if not obs:
        print("no obligations selected for", prop); return 2
    # VERIF_SEED only permutes scheduling order
    if seed:
        import random
        random.Random(seed).shuffle(obs)

    sdir = am = None
    results = {}
    overlay_report = {}
    cmds = []
    tool_errors = []
    file_hashes = {}
    try:
        sdir, am = make_scratch(prop)
        overlay_report = apply_overlay(am)
        for root, _d, files in os.walk(os.path.join(am, "src")):
            if "amv_h" in root:
                continue
            for fn in files:
                p = os.path.join(root, fn)
                file_hashes[os.path.relpath(p, am)] = sha256_file(os.path.join(REPO, os.path.relpath(p, am))) if os.path.exists(os.path.join(REPO, os.path.relpath(p, am))) else None
        cache = os.path.join(VERIF, ".cache")
        os.makedirs(cache, exist_ok=True)
        tdir_base = os.path.join(cache, "target-" + prop)
        lockf = open(os.path.join(cache, "lock-" + prop), "w")
        fcntl.flock(lockf, fcntl.LOCK_EX)

        kani_obs = [o for o in obs if o["backend"] == "kani"]
        verus_obs = [o for o in obs if o["backend"] == "verus"]
        tsig_obs = [o for o in obs if o["backend"] == "tsig"]
        syn_obs = [o for o in obs if o["backend"] == "syntactic"]

        # --- canaries -------------------------------------------------------------------------
        canary_ok = {"kani": None, "verus": None}
        hidx = harness_index(am) if kani_obs else {}

        # --- Verus units (parallel, cheap) ------------------------------------------------------
        def vjob(o):
            return o["id"], run_verus_unit(am, sdir, o)
        if verus_obs:
            can = {"id": "canary.verus", "unit": "canary.rs.tmpl", "timeout": 120}
            with ThreadPoolExecutor(max_workers=min(jobs, len(verus_obs) + 1)) as ex:
                futs = [ex.submit(vjob, o) for o in verus_obs] + [ex.submit(vjob, can)]
                for f in futs:
                    oid, r = f.result()
                    if oid == "canary.verus":
                        canary_ok["verus"] = (r["status"] == "failed")
                        if not canary_ok["verus"]:
                            tool_errors.append("verus canary did not fail: " + r["text"][-500:])
                    else:
                        results[oid] = r
            cmds.append("verus <unit>.rs --output-json --time --multiple-errors 10")

        # --- syntactic / T-sig --------------------------------------------------------------------
        for o in syn_obs:
            results[o["id"]] = run_syntactic(am, o)
        if tsig_obs:
            results.update(run_tsig(am, tdir_base, tsig_obs))
            cmds.append("RUSTFLAGS='--cfg amv_tsig' cargo check --lib --no-default-features [--features ..]")

        # --- Kani groups --------------------------------------------------------------------------
        groups = {}
        for o in kani_obs:
            groups.setdefault(kani_group_key(o), []).append(o)
        first = True
        for (feats, flags, cap), gobs in sorted(groups.items(), key=lambda kv: kv[0]):
            set_map_cap(am, cap)
            tdir = tdir_base + "-" + (hashlib.md5((feats).encode()).hexdigest()[:6])
            run_obs = list(gobs)
            if first:
                run_obs = run_obs + [{"id": "canary.kani", "harness": "amv_canary_false", "timeout": 60, "mem_gb": 1}]
            gj = max(1, min(jobs, int(48 // max(o.get("mem_gb", 4) for o in gobs))))
            res, out, dt, cmd = run_kani_group(am, tdir, feats, flags, run_obs, hidx, gj)
            cmds.append(cmd)
            if first:
                c = res.pop("canary.kani")
                canary_ok["kani"] = (c["status"] == "failed")
                if not canary_ok["kani"]:
                    tool_errors.append("kani canary did not fail: " + c["text"][-800:])
                first = False
            results.update(res)

        # --- classify -----------------------------------------------------------------------------
        known = load_known()
        violations = []
        known_hits = []
        undecided = []
        discharged = []
        bounded_ok = []
        for o in obs:
            r = results.get(o["id"])
            if r is None:
                undecided.append((o, "no result")); continue
            if r["status"] == "success":
                cov = r.get("covers")
                if o["backend"] == "kani" and o["covers"] and cov is not None and cov[0] != cov[1]:
                    undecided.append((o, "vacuity: only %d of %d cover properties satisfied" % cov)); continue
                (discharged if o["kind"] in PROOF_KINDS else bounded_ok).append(o)
            elif r["status"] == "failed":
                fcs = r["failed_checks"]
                if any(re.search(r"unwinding assertion|recursion unwinding", fc["msg"]) for fc in fcs) and not o.get("unwind_is_violation"):
                    undecided.append((o, "unwinding bound too small: " + "; ".join(fc["msg"] for fc in fcs[:3]))); continue
                if not fcs:
                    undecided.append((o, "FAILED without a failed check: " + r["text"][-300:])); continue
                if any(fc["msg"].strip() == "assertion" for fc in fcs):
                    # unnamed CBMC assertion = `missing_definition` (a function body CBMC does not have, e.g. dyn Any::type_id
                    # under -Z restrict-vtable): a tool limit, never a violation. Every assertion of ours carries a message.
                    undecided.append((o, "unnamed CBMC assertion (missing_definition): tool limit")); continue
                kh = match_known(known, prop, o["id"], fcs)
                if kh:
                    known_hits.append((o, kh))
                else:
                    violations.append(o)
            else:
                undecided.append((o, r["text"][-600:]))

        # --- replay of violations -----------------------------------------------------------------
        os.makedirs(os.path.join(VERIF, "replays"), exist_ok=True)
        vio_lines = []
        for o in violations:
            r = results[o["id"]]
            stamp = time.strftime("%Y%m%dT%H%M%S")
            rpath = os.path.join(VERIF, "replays", "%s-%s-%s.json" % (prop, o["id"], stamp))
            rec = {"property": prop, "obligation": o["id"], "kind": o["kind"], "backend": o["backend"],
                   "harness": o.get("harness") or o.get("unit") or o.get("checker"),
                   "failed_checks": r["failed_checks"], "verifier_output": r["text"], "replay_mode": o["replay"],
                   "values": None, "native": None, "desc": o.get("desc", "")}
            suffix = " no-failing-input-found"
            if o["backend"] == "kani" and o["replay"] == "values":
                feats, flags, cap = kani_group_key(o)
                set_map_cap(am, cap)
                tdir = tdir_base + "-" + (hashlib.md5((feats).encode()).hexdigest()[:6])
                fh = r.get("failed_harness") or expand_harnesses(o, hidx)[0]
                rec["harness"] = fh
                vals, pout = playback_values(am, tdir, feats, flags, hidx[fh])
                rec["values"] = vals
                if vals is not None:
                    nat = native_replay(am, tdir_base, feats, hidx[fh], vals)
                    rec["native"] = nat
                    if nat["reproduced"]:
                        suffix = ""
                    else:
                        rec["replay_diverged"] = True
                else:
                    rec["playback_output"] = pout
            if o["replay"] == "scenario" and o.get("scenario"):
                # native scenario on the real crate with the real dependencies (real threads / file watcher)
                sc = os.path.join(VERIF, "scenarios", o["scenario"])
                os.makedirs(os.path.join(am, "tests"), exist_ok=True)
                shutil.copy(sc, os.path.join(am, "tests", os.path.basename(sc)))
                cmd = ["cargo", "test", "--offline"] + (["--features", o.get("scenario_features", o["features"])] if o.get("scenario_features", o["features"]) else []) + ["--test", os.path.basename(sc)[:-3]]
                rc, out, dt, to = run_cmd(cmd, am, 900, dict(ENV, CARGO_TARGET_DIR=tdir_base + "-native"))
                ran = "running " in out
                rec["native"] = {"ran": ran, "reproduced": bool(ran and rc != 0 and "test result: FAILED" in out), "rc": rc, "output": out[-3000:], "scenario": o["scenario"]}
                if rec["native"]["reproduced"]:
                    suffix = ""
                else:
                    rec["replay_diverged"] = True
            json.dump(rec, open(rpath, "w"), indent=1)
            vio_lines.append("VIOLATION property=%s replay=%s obligation=%s %s%s" % (
                prop, rpath, o["id"], json.dumps("; ".join(fc["msg"] for fc in r["failed_checks"][:2]))[:300], suffix))

        if replay_file:
            # replay mode: re-run of one stored obligation; report and stop
            for l in vio_lines:
                print(l)
            print("replay: obligation %s -> %s" % (list(only)[0], "violated" if violations else ("undecided" if undecided else "holds")))
            return 1 if violations else (2 if undecided else 0)

        # --- evidence -------------------------------------------------------------------------------
        pinfo = props[prop]
        n_proof = len([o for o in obs if o["kind"] in PROOF_KINDS])
        fns = sorted({f for o in obs for f in o["functions"]})
        per_ob = []
        for o in obs:
            r = results.get(o["id"], {})
            per_ob.append({"id": o["id"], "kind": o["kind"], "backend": o["backend"], "bound": o["bound"], "tier": o["tier"],
                           "status": r.get("status"), "solver_s": r.get("time"), "checks": r.get("checks"), "covers": r.get("covers"),
                           "desc": o.get("desc", ""), "assumes": o["assumes"], "instances": r.get("instances"),
                           "extract": r.get("extract"), "times_ms": r.get("times_ms")})
        assumptions = list(pinfo.get("assumptions", [])) + ([pinfo["note"]] if pinfo.get("note") else []) + props.get("_common", {}).get("assumptions", [])
        assumptions += ["assumed (callee contract of) " + a for o in obs for a in o["assumes"] if not re.match(r"^C\d+\.", a)]
        cov = {
            "obligations": n_proof,
            "discharged": len(discharged),
            "bounded_obligations": len([o for o in obs if o["kind"] in OTHER_KINDS]),
            "bounded_passed": len(bounded_ok),
            "bounds": {o["id"]: o["bound"] for o in obs if o["kind"] in OTHER_KINDS},
            "checker_cmd": " ;; ".join(cmds),
            "trusted_base": props.get("_common", {}).get("trusted_base", []) + pinfo.get("trusted_base", []) + scan_trusted(),
            "functions_under_contract": fns,
            "per_obligation": per_ob,
            "samples": [{"id": o["id"], "what": o.get("desc", ""), "kind": o["kind"], "bound": o["bound"]} for o in obs[:6]],
            "overlay": overlay_report,
            "repo_file_sha256": file_hashes,
            "canaries": canary_ok,
            "undecided": [{"id": o["id"], "reason": why[:400]} for o, why in undecided],
            "known_findings_hit": [{"id": o["id"], "entries": [k["id"] for k in kh]} for o, kh in known_hits],
            "explanation": pinfo.get("explanation", ""),
            "not_decided": pinfo.get("not_decided", []),
            "evaluations": len(obs),
            "distinct_nontrivial": len(discharged) + len(bounded_ok),
            "rule": "one evaluation per obligation of obligations.toml selected for the tier; non-trivial = verifier accepted it with all cover properties satisfied",
        }
        ev = {"property_id": prop, "tier": tier, "seed": seed, "level": pinfo.get("level", "proof"), "coverage": cov,
              "assumptions": assumptions, "wall_s": round(time.time() - t_start, 1), "violations": len(violations)}
        os.makedirs(os.path.join(VERIF, "evidence"), exist_ok=True)
        if only and not replay_file:
            log("--only run: evidence file left untouched (it must describe the whole check)")
        else:
            json.dump(ev, open(os.path.join(VERIF, "evidence", prop + ".json"), "w"), indent=1)

        # --- report ---------------------------------------------------------------------------------
        for o in discharged:
            r = results[o["id"]]
            print("DISCHARGED %s [%s, %s] %.1fs" % (o["id"], o["kind"], o["backend"], r.get("time") or 0))
        for o in bounded_ok:
            r = results[o["id"]]
            print("BOUNDED-OK %s [%s, %s] bound: %s  %.1fs" % (o["id"], o["kind"], o["backend"], o["bound"], r.get("time") or 0))
        for o, kh in known_hits:
            for k in kh:
                print("KNOWN-FINDING: property=%s %s (obligation %s, entry %s)" % (prop, k["what_fails"], o["id"], k["id"]))
        for o, why in undecided:
            print("UNDECIDED %s %s" % (o["id"], why.replace("\n", " ")[:500]))
        for t in tool_errors:
            print("TOOL-ERROR " + t.replace("\n", " ")[:500])
        for l in vio_lines:
            print(l)
        if violations:
            return 1
        if undecided or tool_errors:
            return 2
        print("OK property=%s tier=%s proofs %d/%d bounded %d wall %.0fs" % (prop, tier, len(discharged), n_proof, len(bounded_ok), time.time() - t_start))
        return 0
    except ToolError as e:
        print("TOOL-ERROR", e)
        return 2
    finally:
        if sdir and not keep:
            shutil.rmtree(sdir, ignore_errors=True)
        elif sdir:
            log("kept scratch", sdir)


if __name__ == "__main__":
    sys.exit(main())
