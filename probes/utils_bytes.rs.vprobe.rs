#[cfg(kani)]
mod vprobe {
    use super::*;
    #[kani::proof]
    #[kani::unwind(6)]
    fn bytes_slice() {
        let src: [u8; 4] = kani::any();
        let len: usize = kani::any(); kani::assume(len <= 4);
        let b = SharedBytes::from_slice(&src[..len]);
        assert!(b.len() == len);
        let i: usize = kani::any(); kani::assume(i < len);
        assert!(b[i] == src[i]);
        let c = b.clone();
        assert!(c.as_ptr() == b.as_ptr());
        drop(b);
        assert!(c[i] == src[i]);
        drop(c);
    }
    #[kani::proof]
    #[kani::unwind(6)]
    fn bytes_vec() {
        let len: usize = kani::any(); kani::assume(len <= 3);
        let extra: usize = kani::any(); kani::assume(extra <= 2);
        let mut v: Vec<u8> = Vec::with_capacity(len + extra);
        let mut k = 0; while k < len { v.push(kani::any()); k += 1; }
        let p = v.as_ptr();
        let b = SharedBytes::from_vec(v);
        assert!(b.len() == len);
        if len + extra > 0 { assert!(b.as_ptr() == p); }
        let c = b.clone(); drop(b); drop(c);
    }
}
