use vstd::prelude::*;
use std::io;
verus! {

// ---- prelude (assumed environment) ----
#[verifier::external_type_specification]
#[verifier::external_body]
pub struct ExIoError(io::Error);

#[verifier::external_type_specification]
pub struct ExIoErrorKind(io::ErrorKind);

#[verifier::external_body]
pub struct BoxedError(Box<dyn std::error::Error + Send + Sync + 'static>);

pub uninterp spec fn io_kind(e: &io::Error) -> io::ErrorKind;

pub assume_specification[ io::Error::kind ](e: &io::Error) -> (k: io::ErrorKind)
    ensures k == io_kind(e);

pub assume_specification[ <io::ErrorKind as PartialEq>::eq ](a: &io::ErrorKind, b: &io::ErrorKind) -> (r: bool)
    ensures r == (*a == *b);

// ---- extracted verbatim from src/error.rs ----
pub enum ErrorKind {
    NoDefaultValue,
    Io(io::Error),
    Conversion(BoxedError),
}

pub open spec fn class(k: ErrorKind) -> int {
    match k {
        ErrorKind::NoDefaultValue => 0,
        ErrorKind::Io(e) => if io_kind(&e) == io::ErrorKind::NotFound { 1 } else { 2 },
        ErrorKind::Conversion(_) => 3,
    }
}

impl ErrorKind {
    pub fn or(self, other: Self) -> (r: Self)
        ensures
            r == self || r == other,
            class(r) >= class(self), class(r) >= class(other),
    {
        use ErrorKind::*;

        match (self, other) {
            (NoDefaultValue, other) => other,
            (Io(_), other @ Conversion(_)) => other,
            (Io(err), other @ Io(_)) if err.kind() == io::ErrorKind::NotFound => other,
            (this, _) => this,
        }
    }
}

} // verus!
fn main() {}
