use vstd::prelude::*;
verus! {

// candidate: shard index computation from cache.rs get_shard:  (hasher.finish() as usize) & (self.shards.len() - 1)
pub open spec fn is_pow2(n: usize) -> bool { n > 0 && (n & sub(n, 1)) == 0 }

fn shard_index(h: u64, len: usize) -> (id: usize)
    requires is_pow2(len),
    ensures id < len,
{
    let id = (h as usize) & (len - 1);
    assert(id < len) by (bit_vector)
        requires id == (h as usize) & sub(len, 1), len > 0, (len & sub(len, 1)) == 0;
    id
}

// linearization lemma for fetch_max/update
pub open spec fn max(a: nat, b: nat) -> nat { if a > b { a } else { b } }
pub open spec fn run(init: nat, offers: Seq<nat>) -> nat
    decreases offers.len()
{
    if offers.len() == 0 { init } else { max(run(init, offers.drop_last()), offers.last()) }
}
pub open spec fn told_true(init: nat, offers: Seq<nat>, i: int) -> bool {
    offers[i] > run(init, offers.subrange(0, i))
}
proof fn lemma_run_is_max(init: nat, offers: Seq<nat>)
    ensures
        run(init, offers) >= init,
        forall|i: int| 0 <= i < offers.len() ==> run(init, offers) >= offers[i],
        run(init, offers) == init || exists|i: int| 0 <= i < offers.len() && run(init, offers) == offers[i],
    decreases offers.len()
{
    if offers.len() > 0 {
        lemma_run_is_max(init, offers.drop_last());
        let p = offers.drop_last();
        assert forall|i: int| 0 <= i < offers.len() implies run(init, offers) >= offers[i] by {
            if i < p.len() { assert(p[i] == offers[i]); }
        }
        if run(init, offers) != init {
            if run(init, offers) == offers.last() { assert(run(init, offers) == offers[offers.len() - 1]); }
            else { let j = choose|j: int| 0 <= j < p.len() && run(init, p) == p[j]; assert(offers[j] == p[j]); }
        }
    }
}

} // verus!
fn main() {}
