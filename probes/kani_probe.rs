#![allow(unused)]
use crate::{
    anycache::{AssetMap, RawCache, CacheExt, Cache},
    entry::{CacheEntry, UntypedHandle},
    source::{Source, DirEntry, FileContent},
    Asset, AssetCache, LocalAssetCache, loader, BoxedError, SharedString,
};
use std::{any::TypeId, io, borrow::Cow};

#[derive(Clone)]
pub(crate) struct RandomState { seed: u64 }
impl RandomState { pub fn new() -> Self { RandomState { seed: 0 } } }
pub(crate) struct H(u64);
impl std::hash::Hasher for H {
    fn write(&mut self, bytes: &[u8]) { let b0 = if bytes.len() > 0 { bytes[0] as u64 } else { 0 }; self.0 = self.0.rotate_left(5) ^ (bytes.len() as u64) ^ (b0 << 8); }
    fn finish(&self) -> u64 { self.0 }
}
impl std::hash::BuildHasher for RandomState { type Hasher = H; fn build_hasher(&self) -> H { H(self.seed) } }

#[derive(Clone, Copy)]
pub enum Out { NotFound, Bytes }
pub struct Mem { pub x: Out }
impl Source for Mem {
    fn read(&self, _id: &str, _ext: &str) -> io::Result<FileContent> {
        match self.x { Out::NotFound => Err(io::ErrorKind::NotFound.into()), Out::Bytes => Ok(FileContent::Slice(b"z")) }
    }
    fn read_dir(&self, _id: &str, _f: &mut dyn FnMut(DirEntry)) -> io::Result<()> { Err(io::ErrorKind::NotFound.into()) }
    fn exists(&self, _e: DirEntry) -> bool { false }
}
pub struct A(pub u8);
pub struct AL;
impl loader::Loader<A> for AL {
    fn load(content: Cow<[u8]>, _ext: &str) -> Result<A, BoxedError> {
        if content.len() == 1 { Ok(A(content[0])) } else { Err(Box::new(io::Error::from(io::ErrorKind::InvalidData))) }
    }
}
impl Asset for A { const EXTENSION: &'static str = "x"; type Loader = AL; }

fn par2() -> io::Result<std::num::NonZeroUsize> { Ok(std::num::NonZeroUsize::new(1).unwrap()) }

#[kani::proof]
#[kani::unwind(6)]
#[kani::stub(std::thread::available_parallelism, par2)]
fn real_cache_ops() {
    let mut cache = AssetCache::without_hot_reloading(Mem { x: Out::Bytes });
    let v: u8 = kani::any(); let w: u8 = kani::any();
    let p1 = cache.get_or_insert::<A>("k", A(v)) as *const _ as usize;
    let h2 = cache.get_or_insert::<A>("k", A(w));
    assert!(h2 as *const _ as usize == p1);
    assert!(h2.read().0 == v);
    let h3 = match cache.load::<A>("j") { Ok(h) => h, Err(e) => { std::mem::forget(e); assert!(false); return; } };
    assert!(h3.read().0 == b'z');
    assert!(cache.contains::<A>("j") && cache.contains::<A>("k") && !cache.contains::<u8>("k"));
    match cache.take::<A>("k") { Some(a) => assert!(a.0 == v), None => assert!(false) }
    assert!(!cache.contains::<A>("k") && cache.contains::<A>("j"));
    cache.clear();
    assert!(!cache.contains::<A>("j"));
    kani::cover!(true, "end");
}

#[kani::proof]
#[kani::unwind(6)]
#[kani::stub(std::thread::available_parallelism, par2)]
fn rc_a() {
    let cache = AssetCache::without_hot_reloading(Mem { x: Out::Bytes });
    let v: u8 = kani::any(); let w: u8 = kani::any();
    let p1 = cache.get_or_insert::<A>("k", A(v)) as *const _ as usize;
    let h2 = cache.get_or_insert::<A>("k", A(w));
    assert!(h2 as *const _ as usize == p1);
    assert!(h2.read().0 == v);
    std::mem::forget(cache);
}
#[kani::proof]
#[kani::unwind(6)]
#[kani::stub(std::thread::available_parallelism, par2)]
fn rc_a2() {
    let cache = AssetCache::without_hot_reloading(Mem { x: Out::Bytes });
    let v: u8 = kani::any(); let w: u8 = kani::any();
    let p1 = cache.get_or_insert::<A>("k", A(v)) as *const _ as usize;
    let h2 = cache.get_or_insert::<A>("k", A(w));
    assert!(h2 as *const _ as usize == p1);
    assert!(h2.read().0 == v);
}
#[kani::proof]
#[kani::unwind(6)]
#[kani::stub(std::thread::available_parallelism, par2)]
fn rc_b() {
    let cache = AssetCache::without_hot_reloading(Mem { x: Out::Bytes });
    let h3 = match cache.load::<A>("j") { Ok(h) => h, Err(e) => { std::mem::forget(e); assert!(false); return; } };
    assert!(h3.read().0 == b'z');
    assert!(cache.contains::<A>("j") && !cache.contains::<u8>("j"));
    std::mem::forget(cache);
}
#[kani::proof]
#[kani::unwind(6)]
#[kani::stub(std::thread::available_parallelism, par2)]
fn rc_c() {
    let mut cache = AssetCache::without_hot_reloading(Mem { x: Out::Bytes });
    let v: u8 = kani::any();
    cache.get_or_insert::<A>("k", A(v));
    match cache.take::<A>("k") { Some(a) => assert!(a.0 == v), None => assert!(false) }
    assert!(!cache.contains::<A>("k"));
    std::mem::forget(cache);
}
#[kani::proof]
#[kani::unwind(6)]
#[kani::stub(std::thread::available_parallelism, par2)]
fn rc_d() {
    let mut cache = AssetCache::without_hot_reloading(Mem { x: Out::Bytes });
    let v: u8 = kani::any();
    cache.get_or_insert::<A>("k", A(v));
    cache.clear();
    assert!(!cache.contains::<A>("k"));
    std::mem::forget(cache);
}
#[kani::proof]
#[kani::unwind(6)]
fn rc_local() {
    let mut cache = LocalAssetCache::with_source(Mem { x: Out::Bytes });
    let v: u8 = kani::any();
    cache.get_or_insert::<A>("k", A(v));
    assert!(cache.remove::<A>("k"));
    assert!(!cache.contains::<A>("k"));
}

#[kani::proof]
fn cex_demo() {
    let a: u8 = kani::any(); let b: u16 = kani::any();
    assert!(!(a == 7 && b == 300));
}

// ---- C03 probe v2: ghost class recorded by the `or` contract stub; no downcasts ----
use crate::error::ErrorKind;
static mut LAST_CLASS: u8 = 0;
static mut DEFAULT_CALLS: u8 = 0;
fn class(k: &ErrorKind) -> u8 { match k { ErrorKind::NoDefaultValue => 0, ErrorKind::Io(e) => if e.kind() == io::ErrorKind::NotFound { 1 } else { 2 }, ErrorKind::Conversion(_) => 3 } }
fn or_contract(this: ErrorKind, other: ErrorKind) -> ErrorKind {
    let (a, b) = (class(&this), class(&other));
    if a >= b && !(a == 1 && b == 1) { unsafe { LAST_CLASS = a; } std::mem::forget(other); this } else { unsafe { LAST_CLASS = b; } std::mem::forget(this); other }
}
#[derive(Clone, Copy, PartialEq, Eq)]
pub enum O { NotFound, Denied, Bad, Good }
pub struct Src3 { o: [O; 3], reads: std::cell::Cell<u8> }
impl Source for Src3 {
    fn read(&self, _id: &str, ext: &str) -> io::Result<FileContent> {
        self.reads.set(self.reads.get() + 1);
        let i = if ext == "0" { 0 } else if ext == "1" { 1 } else { 2 };
        match self.o[i] { O::NotFound => Err(io::ErrorKind::NotFound.into()), O::Denied => Err(io::ErrorKind::PermissionDenied.into()), O::Bad => Ok(FileContent::Slice(b"")), O::Good => Ok(FileContent::Slice(match i { 0 => b"0", 1 => b"1", _ => b"2" })) }
    }
    fn read_dir(&self, _id: &str, _f: &mut dyn FnMut(DirEntry)) -> io::Result<()> { Err(io::ErrorKind::NotFound.into()) }
    fn exists(&self, _e: DirEntry) -> bool { false }
}
#[derive(Debug)] pub struct BadErr; impl std::fmt::Display for BadErr { fn fmt(&self, f: &mut std::fmt::Formatter<'_>) -> std::fmt::Result { Ok(()) } } impl std::error::Error for BadErr {}
pub struct T3(u8);
pub struct L3;
impl loader::Loader<T3> for L3 { fn load(c: Cow<[u8]>, _e: &str) -> Result<T3, BoxedError> { if c.len() == 1 { Ok(T3(c[0])) } else { Err(Box::new(BadErr)) } } }
impl Asset for T3 {
    const EXTENSIONS: &'static [&'static str] = &["0", "1", "2"]; type Loader = L3;
    fn default_value(_id: &SharedString, error: BoxedError) -> Result<Self, BoxedError> { unsafe { DEFAULT_CALLS += 1; } Err(error) }
}
fn any_o() -> O { match kani::any::<u8>() & 3 { 0 => O::NotFound, 1 => O::Denied, 2 => O::Bad, _ => O::Good } }

#[kani::proof]
#[kani::unwind(5)]
#[kani::stub(crate::error::ErrorKind::or, or_contract)]
fn lfs3() {
    let s = Src3 { o: [any_o(), any_o(), any_o()], reads: std::cell::Cell::new(0) };
    let id: SharedString = "k".into();
    let r = crate::asset::load_from_source::<T3>(&s, &id);
    let first_good: Option<u8> = if s.o[0] == O::Good { Some(0) } else if s.o[1] == O::Good { Some(1) } else if s.o[2] == O::Good { Some(2) } else { None };
    match (first_good, r) {
        (Some(i), Ok(t)) => { assert!(t.0 == b'0' + i); assert!(s.reads.get() == i + 1); assert!(unsafe { DEFAULT_CALLS } == 0); }
        (None, Err(e)) => {
            let any_bad = s.o[0] == O::Bad || s.o[1] == O::Bad || s.o[2] == O::Bad;
            let any_denied = s.o[0] == O::Denied || s.o[1] == O::Denied || s.o[2] == O::Denied;
            let want = if any_bad { 3 } else if any_denied { 2 } else { 1 };
            assert!(unsafe { LAST_CLASS } == want);
            assert!(unsafe { DEFAULT_CALLS } == 1);
            assert!(s.reads.get() == 3);
            std::mem::forget(e);
        }
        (_, Ok(_t)) => { assert!(false); }
        (_, Err(e)) => { std::mem::forget(e); assert!(false); }
    }
}

// ---- C11 probe: Directory::load on a stub source ----
pub struct DirSrc { n: u8, e: [u8; 3] }
impl Source for DirSrc {
    fn read(&self, _id: &str, _ext: &str) -> io::Result<FileContent> { Err(io::ErrorKind::NotFound.into()) }
    fn read_dir(&self, id: &str, f: &mut dyn FnMut(DirEntry)) -> io::Result<()> {
        if id != "d" { return Err(io::ErrorKind::NotFound.into()); }
        let mut i = 0;
        while i < self.n as usize {
            match self.e[i] { 0 => f(DirEntry::File("d.p", "x")), 1 => f(DirEntry::File("d.q", "x")), 2 => f(DirEntry::File("d.p", "y")), _ => f(DirEntry::Directory("d.s")) }
            i += 1;
        }
        Ok(())
    }
    fn exists(&self, _e: DirEntry) -> bool { false }
}
#[cfg(feature = "hot-reloading")]
fn add_asset_noop(_this: &crate::hot_reloading::HotReloader, _id: SharedString, deps: crate::hot_reloading::Dependencies, _typ: crate::key::Type) { std::mem::forget(deps); }
#[kani::proof]
#[kani::unwind(5)]
#[kani::stub(crate::hot_reloading::HotReloader::add_asset, add_asset_noop)]
fn dir_load() {
    let n: u8 = kani::any(); kani::assume(n <= 2);
    let e: [u8; 3] = [kani::any::<u8>() & 3, kani::any::<u8>() & 3, 0];
    let cache = LocalAssetCache::with_source(DirSrc { n, e });
    let id: SharedString = "d".into();
    let r = <crate::Directory<A> as crate::Compound>::load(cache.as_any_cache(), &id);
    match r {
        Ok(d) => {
            let has_p = (n > 0 && e[0] == 0) || (n > 1 && e[1] == 0);
            let has_q = (n > 0 && e[0] == 1) || (n > 1 && e[1] == 1);
            let cnt = d.ids().len();
            assert!(cnt == (has_p as usize) + (has_q as usize));
            let mut it = d.ids();
            if has_p { match it.next() { Some(s) => assert!(&**s == "d.p"), None => assert!(false) } }
            if has_q { match it.next() { Some(s) => assert!(&**s == "d.q"), None => assert!(false) } }
        }
        Err(e) => { std::mem::forget(e); assert!(false); }
    }
    std::mem::forget(cache);
}

#[kani::proof]
#[kani::unwind(4)]
fn ice_cmp() { let a: SharedString = "a".into(); let b: SharedString = "b".into(); assert!(a < b); assert!(a.cmp(&b) == std::cmp::Ordering::Less); }
#[kani::proof]
#[kani::unwind(4)]
fn ice_sort() { let mut v: Vec<u8> = vec![2, 1]; v.sort_unstable(); assert!(v[0] == 1); }
#[kani::proof]
#[kani::unwind(4)]
fn ice_dedup() { let mut v: Vec<u8> = vec![1, 1]; v.dedup(); assert!(v.len() == 1); }

#[kani::proof]
#[kani::unwind(4)]
fn ice_sort_ss() { let mut v: Vec<SharedString> = vec!["b".into(), "a".into()]; v.sort_unstable(); assert!(&*v[0] == "a"); }
#[kani::proof]
#[kani::unwind(4)]
fn ice_sort_ss_stable() { let mut v: Vec<SharedString> = vec!["b".into(), "a".into()]; v.sort(); assert!(&*v[0] == "a"); }

#[kani::proof]
#[kani::unwind(5)]
fn dl1() {
    let cache = LocalAssetCache::with_source(DirSrc { n: 1, e: [0, 0, 0] });
    let id: SharedString = "d".into();
    let r = <crate::Directory<A> as crate::Compound>::load(cache.as_any_cache(), &id);
    std::mem::forget(r); std::mem::forget(cache);
}
#[kani::proof]
#[kani::unwind(5)]
fn dl2() {
    let cache = LocalAssetCache::with_source(DirSrc { n: 1, e: [0, 0, 0] });
    let id: SharedString = "d".into();
    let r = <A as crate::asset::DirLoadable>::select_ids(cache.as_any_cache(), &id);
    std::mem::forget(r); std::mem::forget(cache);
}

#[kani::proof]
#[kani::unwind(5)]
fn dl_a() {
    let cache = LocalAssetCache::with_source(DirSrc { n: 1, e: [0, 0, 0] });
    let mut c = 0u8;
    let r = cache.as_any_cache().raw_source().read_dir("d", &mut |_e| { c += 1; });
    std::mem::forget(r); std::mem::forget(cache);
    assert!(c == 1);
}
#[kani::proof]
#[kani::unwind(5)]
fn dl_b() {
    let exts: &[&str] = &["x"];
    let e: &str = if kani::any() { "x" } else { "y" };
    let r = exts.contains(&e);
    assert!(r == (e == "x"));
}
#[kani::proof]
#[kani::unwind(5)]
fn dl_c() {
    let s = DirSrc { n: 1, e: [0, 0, 0] };
    let mut ids: Vec<SharedString> = Vec::new();
    let r = s.read_dir("d", &mut |entry| { if let DirEntry::File(id, ext) = entry { if ext == "x" { ids.push(id.into()); } } });
    std::mem::forget(r);
    assert!(ids.len() == 1);
}

#[kani::proof]
#[kani::unwind(5)]
fn dl_d() {
    let cache = LocalAssetCache::with_source(DirSrc { n: 1, e: [0, 0, 0] });
    let mut c = 0u8;
    let r = Cache::read_dir(&cache, "d", &mut |_e| { c += 1; });
    std::mem::forget(r); std::mem::forget(cache);
    assert!(c == 1);
}
#[kani::proof]
#[kani::unwind(5)]
fn dl_e() {
    let cache = LocalAssetCache::with_source(DirSrc { n: 1, e: [0, 0, 0] });
    let dc: &dyn Cache = &cache;
    let mut c = 0u8;
    let r = dc.read_dir("d", &mut |_e| { c += 1; });
    std::mem::forget(r); std::mem::forget(cache);
    assert!(c == 1);
}
#[kani::proof]
#[kani::unwind(5)]
fn dl_f() {
    let cache = LocalAssetCache::with_source(DirSrc { n: 1, e: [0, 0, 0] });
    let ac = cache.as_any_cache();
    let r = ac.contains::<A>("d");
    assert!(!r);
    std::mem::forget(cache);
}

pub struct GMap0;
impl AssetMap for GMap0 {
    fn get(&self, _id: &str, _t: TypeId) -> Option<&UntypedHandle> { None }
    fn insert(&self, _entry: CacheEntry) -> &UntypedHandle { panic!("no inserts expected") }
    fn contains_key(&self, _id: &str, _t: TypeId) -> bool { false }
}
pub struct GDir { map: GMap0, src: DirSrc }
impl RawCache for GDir {
    type AssetMap = GMap0; type Source = DirSrc;
    fn assets(&self) -> &GMap0 { &self.map }
    fn get_source(&self) -> &DirSrc { &self.src }
    #[cfg(feature = "hot-reloading")]
    fn reloader(&self) -> Option<&crate::hot_reloading::HotReloader> { None }
}
#[kani::proof]
#[kani::unwind(4)]
#[kani::stub(crate::hot_reloading::HotReloader::add_asset, add_asset_noop)]
fn dir_load2() {
    let e: [u8; 3] = [1, 0, 0];
    let cache = GDir { map: GMap0, src: DirSrc { n: 2, e } };
    let id: SharedString = "d".into();
    let r = <crate::Directory<A> as crate::Compound>::load(cache._as_any_cache(), &id);
    match r {
        Ok(d) => {
            let has_p = e[0] == 0 || e[1] == 0;
            let has_q = e[0] == 1 || e[1] == 1;
            assert!(d.ids().len() == (has_p as usize) + (has_q as usize));
            let mut it = d.ids();
            if has_p { match it.next() { Some(s) => assert!(&**s == "d.p"), None => assert!(false) } }
            if has_q { match it.next() { Some(s) => assert!(&**s == "d.q"), None => assert!(false) } }
        }
        Err(e) => { std::mem::forget(e); assert!(false); }
    }
}
