#[cfg(kani)]
mod vprobe {
    use super::*;
    use crate::source::DirEntry;
    fn is_dir_stub(_p: &Path) -> bool { false }
    #[kani::proof]
    #[kani::unwind(12)]
    #[kani::stub(std::path::Path::is_dir, is_dir_stub)]
    fn roundtrip_file() {
        let root = Path::new("/r");
        let p = crate::utils::path_of_entry(root, DirEntry::File("a.b", "x"));
        let mut ib = IdBuilder::default();
        match id_of_path(&mut ib, root, &p) {
            Some(OwnedDirEntry::File(id, ext)) => { assert!(&*id == "a.b"); assert!(&*ext == "x"); }
            _ => assert!(false),
        }
    }
}

#[cfg(kani)]
mod vprobe2 {
    use super::*;
    static mut SEEN: u8 = 0;
    fn id_stub(_b: &mut IdBuilder, _root: &Path, path: &Path) -> Option<OwnedDirEntry> {
        // injective recorder on the two candidate paths of this harness
        let l = path.as_os_str().len();
        unsafe { SEEN |= if l == 6 { 1 } else if l == 4 { 2 } else { 4 }; }
        None
    }
    static mut SENT: usize = 0;
    fn send_stub<I>(_this: &crate::hot_reloading::EventSender, events: I) -> Result<usize, crate::hot_reloading::Disconnected>
    where I: IntoIterator<Item = OwnedDirEntry> {
        let mut n = 0; for e in events { n += 1; std::mem::forget(e); }
        unsafe { SENT += n; }
        Ok(n)
    }
    #[kani::proof]
    #[kani::unwind(6)]
    #[kani::stub(id_of_path, id_stub)]
    #[kani::stub(crate::hot_reloading::EventSender::send_multiple, send_stub)]
    fn event_table() {
        let (tx, rx) = crossbeam_channel::unbounded();
        std::mem::forget(rx);
        let mut h = NotifyEventHandler { roots: vec![PathBuf::from("/r")], events: crate::hot_reloading::EventSender(tx), id_builder: IdBuilder::default(), watcher: None };
        let kind = match kani::any::<u8>() % 3 { 0 => notify::EventKind::Modify(notify::event::ModifyKind::Any), 1 => notify::EventKind::Create(notify::event::CreateKind::File), _ => notify::EventKind::Remove(notify::event::RemoveKind::File) };
        let is_remove = matches!(kind, notify::EventKind::Remove(_));
        let is_modify = matches!(kind, notify::EventKind::Modify(_));
        let ev = notify::Event { kind, paths: vec![PathBuf::from("/r/a.x")], attrs: Default::default() };
        notify::EventHandler::handle_event(&mut h, Ok(ev));
        let seen = unsafe { SEEN };
        // property-derived table: modify => path ; create/remove => path and parent
        if is_modify { assert!(seen == 1); } else { assert!(seen == 3); }
        kani::cover!(is_remove);
        std::mem::forget(h);
    }
}

#[cfg(kani)]
mod vprobe3 {
    use super::*;
    struct Ev { kind: notify::EventKind }
    // statement slice copied verbatim from handle_event (lines 127-138), wrapped
    fn kind_table<'a>(event: &Ev, path: &'a PathBuf) -> Option<Vec<&'a Path>> {
        let paths = match event.kind {
                        notify::EventKind::Any | notify::EventKind::Modify(_) => vec![&**path],
                        notify::EventKind::Create(_) => match path.parent() {
                            Some(parent) => vec![&path, parent],
                            None => vec![&**path],
                        },
                        notify::EventKind::Remove(_) => match path.parent() {
                            Some(parent) => vec![parent],
                            None => vec![],
                        },
                        notify::EventKind::Access(_) | notify::EventKind::Other => return None,
                    };
        Some(paths)
    }
    #[kani::proof]
    #[kani::unwind(8)]
    fn kind_table_h() {
        let kind = match kani::any::<u8>() % 4 { 0 => notify::EventKind::Modify(notify::event::ModifyKind::Any), 1 => notify::EventKind::Create(notify::event::CreateKind::File), 2 => notify::EventKind::Remove(notify::event::RemoveKind::File), _ => notify::EventKind::Other };
        let tag = match kind { notify::EventKind::Modify(_) => 0, notify::EventKind::Create(_) => 1, notify::EventKind::Remove(_) => 2, _ => 3 };
        let p = PathBuf::from("/r/a.x");
        let r = kind_table(&Ev { kind }, &p);
        match (tag, r) {
            (0, Some(v)) => { assert!(v.len() == 1); }
            (1, Some(v)) => { assert!(v.len() == 2); }
            (2, Some(v)) => { assert!(v.len() == 2); }   // property: deleted entry AND its parent
            (3, None) => {}
            _ => assert!(false),
        }
    }
}
