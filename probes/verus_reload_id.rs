use vstd::prelude::*;
verus! {

#[derive(Debug, Clone, Copy, PartialEq, Eq, PartialOrd, Ord)]
pub struct ReloadId(usize);

impl ReloadId {
    pub closed spec fn v(self) -> usize { self.0 }

    #[inline]
    pub fn update(&mut self, new: ReloadId) -> (newer: bool)
        ensures
            final(self).v() == if new.v() > old(self).v() { new.v() } else { old(self).v() },
            newer == (new.v() > old(self).v()),
    {
        let newer = new > *self;
        if newer {
            *self = new;
        }
        newer
    }
}

} // verus!
fn main() {}
