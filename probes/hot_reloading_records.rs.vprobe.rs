#[cfg(kani)]
mod vprobe {
    use super::*;
    fn rec_is_none() -> bool { RECORDING.with(|r| r.get().is_none()) }
    #[kani::proof]
    #[kani::unwind(5)]
    fn record_restore() {
        let r = crate::hot_reloading::vprobe::make_reloader_pub();
        assert!(rec_is_none());
        let fail: bool = kani::any();
        let (res, deps) = record(&r, || {
            add_file_record(&r, "a", "x");
            let (inner, ideps) = record(&r, || { add_file_record(&r, "b", "x"); if fail { Err(()) } else { Ok(()) } });
            assert!(ideps.0.len() == 1);
            no_record(|| { add_file_record(&r, "c", "x"); assert!(rec_is_none()); });
            add_dir_record(&r, "d");
            inner
        });
        assert!(res.is_err() == fail);
        assert!(deps.0.len() == 2);   // a.x and dir d ; not b, not c
        assert!(rec_is_none());
        std::mem::forget(r);
    }
}
