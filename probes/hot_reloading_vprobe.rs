#![allow(unused)]
use super::{dependencies::DepsGraph, records::{self, Dependencies, Dependency}, HotReloader, Answers, CacheMessage};
use crate::{utils::OwnedKey, source::OwnedDirEntry, key::Type, SharedString};
use crate::kani_probe::A;
use std::sync::Arc;

fn key(id: &str) -> OwnedKey { OwnedKey::new::<A>(id.into()) }

#[kani::proof]
#[kani::unwind(6)]
fn deps_topo() {
    // file f -> asset x -> asset y ; reload order must be x then y
    let r = make_reloader();
    let ((), dx) = records::record(&r, || { records::add_file_record(&r, "f", "x"); });
    let ((), dy) = records::record(&r, || { records::add_record(&r, "x".into(), std::any::TypeId::of::<A>()); });
    let mut g = DepsGraph::new();
    g.insert_asset(key("y"), dy, Type::of::<A>());
    g.insert_asset(key("x"), dx, Type::of::<A>());
    let ev = OwnedDirEntry::File("f".into(), "x".into());
    assert!(g.contains(&ev));
    let order: Vec<OwnedKey> = g.topological_sort_from([&ev]).into_iter().collect();
    assert!(order.len() == 2);
    assert!(&*order[0].id == "x" && &*order[1].id == "y");
    std::mem::forget(r);
}

fn make_reloader() -> HotReloader {
    let (tx, rx) = crossbeam_channel::unbounded::<CacheMessage>();
    std::mem::forget(rx);
    HotReloader { sender: tx, answers: Arc::new(Answers::default()) }
}

#[kani::proof]
#[kani::unwind(6)]
fn chan_send() {
    let (tx, rx) = crossbeam_channel::unbounded::<CacheMessage>();
    let ok = tx.send(CacheMessage::Clear).is_ok();
    assert!(ok);
    match rx.try_recv() { Ok(CacheMessage::Clear) => {}, _ => assert!(false) }
    std::mem::forget(tx); std::mem::forget(rx);
}

#[kani::proof]
#[kani::unwind(4)]
fn answers_signal() {
    let a = Answers::default();
    *a.current_token.lock() = Some(3);
    let n0 = unsafe { crate::vsync::NOTIFY_COUNT };
    a.wait_for_answer(3);
    assert!(a.current_token.lock().is_none());
    // signalling obligation: a state change that can enable a waiter (notify waits for None) must be signalled
    assert!(unsafe { crate::vsync::NOTIFY_COUNT } > n0);
}

#[kani::proof]
#[kani::unwind(4)]
fn deps_min() {
    let r = make_reloader();
    let ((), dx) = records::record(&r, || { records::add_file_record(&r, "f", "x"); });
    let mut g = DepsGraph::new();
    g.insert_asset(key("x"), dx, Type::of::<A>());
    let ev = OwnedDirEntry::File("f".into(), "x".into());
    assert!(g.contains(&ev));
    let order = g.topological_sort_from([&ev]).into_iter();
    assert!(order.len() == 1);
    std::mem::forget(r);
}

pub(crate) fn make_reloader_pub() -> HotReloader { make_reloader() }

#[kani::proof]
#[kani::unwind(5)]
fn visit_cycle() {
    // x looks up y, y looks up x  => cyclic rdeps; file f read by x
    let r = make_reloader();
    let ((), dx) = records::record(&r, || { records::add_file_record(&r, "f", "x"); records::add_record(&r, "y".into(), std::any::TypeId::of::<A>()); });
    let ((), dy) = records::record(&r, || { records::add_record(&r, "x".into(), std::any::TypeId::of::<A>()); });
    let mut g = DepsGraph::new();
    g.insert_asset(key("x"), dx, Type::of::<A>());
    g.insert_asset(key("y"), dy, Type::of::<A>());
    let ev = OwnedDirEntry::File("f".into(), "x".into());
    let order = g.topological_sort_from([&ev]).into_iter();
    assert!(order.len() == 2);
    std::mem::forget(r);
}

#[kani::proof]
#[kani::unwind(3)]
fn ss_eq_cost() {
    let a: SharedString = "a".into(); let b: SharedString = "b".into(); let c: SharedString = "a".into(); let d: SharedString = "d".into();
    assert!(a == c); assert!(a != b); assert!(b != d); assert!(c != d);
    let k1 = Dependency::File(a.clone(), b.clone()); let k2 = Dependency::File(c.clone(), b.clone()); let k3 = Dependency::Directory(d.clone());
    assert!(k1 == k2); assert!(k1 != k3);
}

#[kani::proof]
#[kani::unwind(4)]
fn graph_insert_only() {
    let mut g = DepsGraph::new();
    let mut s = crate::utils::HashSet::new();
    s.insert(Dependency::File("f".into(), "x".into()));
    g.insert_asset(key("x"), Dependencies(s), Type::of::<A>());
    let ev = OwnedDirEntry::File("f".into(), "x".into());
    assert!(g.contains(&ev));
}

// ---- front-end with a reloader: contract map + add_asset recorder ----
use crate::anycache::{AssetMap as AssetMapT, RawCache, CacheExt, Cache};
use crate::entry::{CacheEntry, UntypedHandle};
use crate::kani_probe::{Mem, Out};
use std::cell::UnsafeCell;
struct GhostMap { slots: UnsafeCell<[Option<CacheEntry>; 2]> }
impl GhostMap {
    fn new() -> Self { GhostMap { slots: UnsafeCell::new([None, None]) } }
    fn find(&self, id: &str, t: std::any::TypeId) -> Option<usize> {
        let s = unsafe { &*self.slots.get() };
        let mut i = 0;
        while i < 2 { if let Some(e) = &s[i] { if e.type_id() == t && &**e.id() == id { return Some(i); } } i += 1; }
        None
    }
}
impl AssetMapT for GhostMap {
    fn get(&self, id: &str, t: std::any::TypeId) -> Option<&UntypedHandle> { let i = self.find(id, t)?; let s = unsafe { &*self.slots.get() }; match &s[i] { Some(e) => Some(unsafe { e.inner().extend_lifetime() }), None => None } }
    fn insert(&self, entry: CacheEntry) -> &UntypedHandle {
        let i = match self.find(entry.id(), entry.type_id()) { Some(i) => i, None => { let s = unsafe { &mut *self.slots.get() }; let i = if s[0].is_none() { 0 } else { 1 }; s[i] = Some(entry); i } };
        let s = unsafe { &*self.slots.get() }; match &s[i] { Some(e) => unsafe { e.inner().extend_lifetime() }, None => unreachable!() }
    }
    fn contains_key(&self, id: &str, t: std::any::TypeId) -> bool { self.find(id, t).is_some() }
}
struct GC { map: GhostMap, src: Mem, rel: HotReloader }
impl RawCache for GC {
    type AssetMap = GhostMap; type Source = Mem;
    fn assets(&self) -> &GhostMap { &self.map }
    fn get_source(&self) -> &Mem { &self.src }
    fn reloader(&self) -> Option<&HotReloader> { Some(&self.rel) }
}
static mut ADDED: u8 = 0;
static mut ADDED_NDEPS: usize = 0;
static mut ADDED_HAS_FILE: bool = false;
fn add_asset_rec(_this: &HotReloader, id: SharedString, deps: Dependencies, _typ: Type) {
    unsafe { ADDED += 1; ADDED_NDEPS = deps.0.len(); }
    let want = Dependency::File(id.clone(), "x".into());
    unsafe { ADDED_HAS_FILE = deps.0.contains(&want); }
    std::mem::forget(deps);
}
#[kani::proof]
#[kani::unwind(5)]
#[kani::stub(HotReloader::add_asset, add_asset_rec)]
fn load_registers() {
    let c = GC { map: GhostMap::new(), src: Mem { x: Out::Bytes }, rel: make_reloader() };
    let r = c._load::<A>("k");
    match r { Ok(h) => { assert!(h.read().0 == b'z'); assert!(h.last_reload_id() == crate::ReloadId::NEVER); } Err(e) => { std::mem::forget(e); assert!(false); } }
    assert!(unsafe { ADDED } == 1 && unsafe { ADDED_NDEPS } == 1 && unsafe { ADDED_HAS_FILE });
    // get_or_insert registers nothing
    let _ = c._get_or_insert::<A>("j", A(1));
    assert!(unsafe { ADDED } == 1);
    // reload path: reload_untyped rewrites the get_or_insert'ed value? (C10 question)
    let deps = c._as_any_cache().reload_untyped("j".into(), Type::of::<A>());
    let after = match c._get_cached::<A>("j") { Some(h) => h.read().0, None => 0 };
    kani::cover!(deps.is_some() && after == b'z', "get_or_insert value was rewritten by reload_untyped");
    std::mem::forget(deps); std::mem::forget(c);
}
