#![allow(unused)]
use super::*;
use crate::kani_probe::A;
static mut DROPS: u32 = 0;
pub struct D(pub u64, pub u64);
impl Drop for D { fn drop(&mut self) { unsafe { DROPS += 1; } } }
impl crate::Storable for D { const HOT_RELOADED: bool = true; }

#[kani::proof]
#[kani::unwind(3)]
fn write_contract() {
    let a: u64 = kani::any(); let b: u64 = kani::any();
    let e = CacheEntry::new(D(a, a), "k".into(), || true);
    let h = e.inner();
    assert!(h.last_reload_id() == ReloadId::NEVER);
    let mut w = h.reload_watcher();
    assert!(!w.reloaded());
    let n = CacheEntry::new(D(b, b), "k".into(), || true);
    h.write(n);
    assert!(unsafe { DROPS } == 1);
    match h.downcast_ref::<D>() { Some(t) => { let g = t.read(); assert!(g.0 == b && g.1 == b); } None => assert!(false) }
    assert!(h.last_reload_id() == ReloadId(1));
    assert!(w.reloaded()); assert!(!w.reloaded());
    assert!(h.reloaded_global()); assert!(!h.reloaded_global());
    assert!(h.downcast_ref::<A>().is_none());
    drop(e);
    assert!(unsafe { DROPS } == 2);
}
