use vstd::prelude::*;
use vstd::std_specs::cmp::*;
verus! {

#[derive(Debug, Clone, Copy, PartialEq, Eq, PartialOrd, Ord)]
pub struct ReloadId(usize);

impl ReloadId {
    pub closed spec fn v(self) -> usize { self.0 }
}

// trusted: semantics of #[derive(PartialOrd)] on a one-field tuple struct
impl PartialOrdSpecImpl for ReloadId {
    open spec fn obeys_partial_cmp_spec() -> bool { true }
    open spec fn partial_cmp_spec(&self, other: &ReloadId) -> Option<core::cmp::Ordering> {
        if self.v() < other.v() { Some(core::cmp::Ordering::Less) } else if self.v() > other.v() { Some(core::cmp::Ordering::Greater) } else { Some(core::cmp::Ordering::Equal) }
    }
}

fn test(a: ReloadId, b: ReloadId) -> (r: bool)
    ensures r == (a.v() > b.v())
{
    a > b
}

} // verus!
fn main() {}
