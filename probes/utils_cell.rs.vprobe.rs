#[cfg(kani)]
mod vprobe {
    use super::*;
    static mut SEED_DROPS: u32 = 0;
    static mut VAL_DROPS: u32 = 0;
    struct Seed(u8); impl Drop for Seed { fn drop(&mut self) { unsafe { SEED_DROPS += 1; } } }
    struct Val(u8); impl Drop for Val { fn drop(&mut self) { unsafe { VAL_DROPS += 1; } } }
    #[kani::proof]
    #[kani::unwind(3)]
    fn cell_seq() {
        let s: u8 = kani::any();
        let c: OnceInitCell<Seed, Val> = OnceInitCell::new(Seed(s));
        assert!(c.get().is_none());
        let fail1: bool = kani::any();
        let mut calls = 0u32;
        let r1 = c.get_or_try_init(|u| { calls += 1; if fail1 { Err(()) } else { Ok(Val(u.0)) } });
        if fail1 { assert!(r1.is_err()); assert!(c.get().is_none()); assert!(unsafe { SEED_DROPS } == 0); }
        else { match r1 { Ok(v) => assert!(v.0 == s), Err(_) => assert!(false) } assert!(unsafe { SEED_DROPS } == 1); }
        let r2 = c.get_or_try_init(|u| { calls += 1; Ok::<_, ()>(Val(u.0 ^ 0xff)) });
        match r2 { Ok(v) => assert!(v.0 == if fail1 { s ^ 0xff } else { s }), Err(_) => assert!(false) }
        assert!(calls == if fail1 { 2 } else { 1 });
        assert!(unsafe { SEED_DROPS } == 1 && unsafe { VAL_DROPS } == 0);
        drop(c);
        assert!(unsafe { SEED_DROPS } == 1 && unsafe { VAL_DROPS } == 1);
    }
}
