//! Contract stub v4 of HashMap/HashSet: direct-indexed by a perfect index over the harness key alphabet.
#![allow(dead_code)]
use std::borrow::Borrow;
use std::marker::PhantomData;
pub const N: usize = 3;
pub trait VIdx { fn vidx(&self) -> usize; }

pub struct HashMap<K, V, S = ()> { slots: [Option<(K, V)>; N], _s: PhantomData<S> }
impl<K, V, S> HashMap<K, V, S> {
    pub fn with_hasher(_s: S) -> Self { HashMap { slots: [None, None, None], _s: PhantomData } }
    pub fn with_capacity_and_hasher(_c: usize, s: S) -> Self { Self::with_hasher(s) }
    pub fn clear(&mut self) { let mut i = 0; while i < N { self.slots[i] = None; i += 1; } }
    pub fn iter(&self) -> Iter<'_, K, V> { Iter { m: &self.slots, i: 0 } }
}
pub struct Iter<'a, K, V> { m: &'a [Option<(K, V)>; N], i: usize }
impl<'a, K, V> Iterator for Iter<'a, K, V> { type Item = (&'a K, &'a V); fn next(&mut self) -> Option<Self::Item> { while self.i < N { let j = self.i; self.i += 1; if let Some((k, v)) = &self.m[j] { return Some((k, v)); } } None } }
impl<'a, K, V, S> IntoIterator for &'a HashMap<K, V, S> { type Item = (&'a K, &'a V); type IntoIter = Iter<'a, K, V>; fn into_iter(self) -> Iter<'a, K, V> { self.iter() } }
impl<K: VIdx, V, S> HashMap<K, V, S> {
    pub fn get<Q: ?Sized + VIdx>(&self, k: &Q) -> Option<&V> where K: Borrow<Q> { match &self.slots[k.vidx()] { Some(p) => Some(&p.1), None => None } }
    pub fn get_mut<Q: ?Sized + VIdx>(&mut self, k: &Q) -> Option<&mut V> where K: Borrow<Q> { match &mut self.slots[k.vidx()] { Some(p) => Some(&mut p.1), None => None } }
    pub fn contains_key<Q: ?Sized + VIdx>(&self, k: &Q) -> bool where K: Borrow<Q> { self.slots[k.vidx()].is_some() }
    pub fn remove<Q: ?Sized + VIdx>(&mut self, k: &Q) -> Option<V> where K: Borrow<Q> { match self.slots[k.vidx()].take() { Some(p) => Some(p.1), None => None } }
    pub fn insert(&mut self, k: K, v: V) -> Option<V> { let i = k.vidx(); match std::mem::replace(&mut self.slots[i], Some((k, v))) { Some(p) => Some(p.1), None => None } }
    pub fn entry(&mut self, k: K) -> Entry<'_, K, V> { let i = k.vidx(); if self.slots[i].is_some() { Entry::Occupied(OccupiedEntry { slot: &mut self.slots[i] }) } else { Entry::Vacant(VacantEntry { slot: &mut self.slots[i], key: k }) } }
}
pub enum Entry<'a, K, V> { Occupied(OccupiedEntry<'a, K, V>), Vacant(VacantEntry<'a, K, V>) }
pub struct OccupiedEntry<'a, K, V> { slot: &'a mut Option<(K, V)> }
pub struct VacantEntry<'a, K, V> { slot: &'a mut Option<(K, V)>, key: K }
impl<'a, K, V> OccupiedEntry<'a, K, V> { pub fn into_mut(self) -> &'a mut V { match self.slot { Some(p) => &mut p.1, None => unreachable!() } } }
impl<'a, K, V> VacantEntry<'a, K, V> { pub fn insert(self, v: V) -> &'a mut V { *self.slot = Some((self.key, v)); match self.slot { Some(p) => &mut p.1, None => unreachable!() } } }
impl<'a, K, V> Entry<'a, K, V> {
    pub fn or_insert(self, v: V) -> &'a mut V { match self { Entry::Occupied(o) => o.into_mut(), Entry::Vacant(e) => e.insert(v) } }
    pub fn or_default(self) -> &'a mut V where V: Default { match self { Entry::Occupied(o) => o.into_mut(), Entry::Vacant(e) => e.insert(V::default()) } }
}
impl<K, V, S> std::fmt::Debug for HashMap<K, V, S> { fn fmt(&self, f: &mut std::fmt::Formatter<'_>) -> std::fmt::Result { f.write_str("VMap") } }

pub struct HashSet<T, S = ()> { slots: [Option<T>; N], n: usize, _s: PhantomData<S> }
pub struct SetIter<'a, T> { m: &'a [Option<T>; N], i: usize }
impl<'a, T> Iterator for SetIter<'a, T> { type Item = &'a T; fn next(&mut self) -> Option<&'a T> { while self.i < N { let j = self.i; self.i += 1; if let Some(t) = &self.m[j] { return Some(t); } } None } }
impl<T, S> HashSet<T, S> {
    pub fn with_hasher(_s: S) -> Self { HashSet { slots: [None, None, None], n: 0, _s: PhantomData } }
    pub fn len(&self) -> usize { self.n }
    pub fn is_empty(&self) -> bool { self.n == 0 }
    pub fn clear(&mut self) { let mut i = 0; while i < N { self.slots[i] = None; i += 1; } self.n = 0; }
    pub fn iter(&self) -> SetIter<'_, T> { SetIter { m: &self.slots, i: 0 } }
}
impl<T: VIdx, S> HashSet<T, S> {
    pub fn contains<Q: ?Sized + VIdx>(&self, k: &Q) -> bool where T: Borrow<Q> { self.slots[k.vidx()].is_some() }
    pub fn insert(&mut self, t: T) -> bool { let i = t.vidx(); if self.slots[i].is_some() { false } else { self.slots[i] = Some(t); self.n += 1; true } }
    pub fn remove<Q: ?Sized + VIdx>(&mut self, k: &Q) -> bool where T: Borrow<Q> { let i = k.vidx(); if self.slots[i].is_some() { self.slots[i] = None; self.n -= 1; true } else { false } }
    pub fn difference<'a>(&'a self, other: &'a HashSet<T, S>) -> Diff<'a, T, S> { Diff { it: self.iter(), other } }
}
pub struct Diff<'a, T, S> { it: SetIter<'a, T>, other: &'a HashSet<T, S> }
impl<'a, T: VIdx, S> Iterator for Diff<'a, T, S> { type Item = &'a T; fn next(&mut self) -> Option<&'a T> { loop { match self.it.next() { Some(t) => if other_has(self.other, t) { continue } else { return Some(t) }, None => return None } } } }
fn other_has<T: VIdx, S>(o: &HashSet<T, S>, t: &T) -> bool { o.slots[t.vidx()].is_some() }
impl<T, S> std::fmt::Debug for HashSet<T, S> { fn fmt(&self, f: &mut std::fmt::Formatter<'_>) -> std::fmt::Result { f.write_str("VSet") } }

// ---- perfect indices over the harness alphabet: ids "", "a", "b" ; exts "x" ; one type ----
pub fn sidx(s: &str) -> usize { let b = s.as_bytes(); if b.len() == 0 { 0 } else { assert!(b.len() == 1 && (b[0] == b'a' || b[0] == b'b' || b[0] == b'f' || b[0] == b'x' || b[0] == b'y')); match b[0] { b'a' | b'x' => 1, _ => 2 } } }
