//! Contract stub of ahash::RandomState / std RandomState: a BuildHasher with a symbolic per-instance seed.
//! Assumed contract: hashing is a function of (seed, sequence of written bytes). `finish()` mixes the seed
//! with a small digest of the written bytes, so equal writes give equal hashes and nothing else is promised.
#![allow(dead_code)]
#[derive(Clone)]
pub struct RandomState {
    pub seed: u64,
}
impl RandomState {
    pub fn new() -> Self {
        RandomState { seed: kani::any() }
    }
}
pub struct H {
    seed: u64,
    acc: u64,
}
impl std::hash::Hasher for H {
    fn write(&mut self, bytes: &[u8]) {
        let b0 = if bytes.len() > 0 { bytes[0] as u64 } else { 0 };
        let bl = if bytes.len() > 0 { bytes[bytes.len() - 1] as u64 } else { 0 };
        self.acc = self.acc.rotate_left(7) ^ (bytes.len() as u64) ^ (b0 << 8) ^ (bl << 16);
    }
    fn finish(&self) -> u64 {
        self.acc.wrapping_mul(self.seed | 1) ^ self.seed
    }
}
impl std::hash::BuildHasher for RandomState {
    type Hasher = H;
    fn build_hasher(&self) -> H {
        H { seed: self.seed, acc: 0 }
    }
}
