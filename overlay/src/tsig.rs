//! T-sig obligations: ownership contracts discharged by rustc. Each tagged line is one obligation; a type error on a
//! tagged line means the signature no longer requires exclusive access. Compiled only under `--cfg amv_tsig`.
#![allow(dead_code)]
use crate::source::Empty;
use crate::{AssetCache, LocalAssetCache};

// removal needs `&mut self`: no handle or read guard (which borrow the cache) can be alive while an entry is dropped
const _: fn(&mut AssetCache<Empty>, &str) -> bool = AssetCache::<Empty>::remove::<u8>; // C01.T1 C13.T1
const _: fn(&mut AssetCache<Empty>, &str) -> Option<u8> = AssetCache::<Empty>::take::<u8>; // C01.T1 C13.T1
const _: fn(&mut AssetCache<Empty>) = AssetCache::<Empty>::clear; // C01.T1 C13.T1
const _: fn(&mut LocalAssetCache<Empty>, &str) -> bool = LocalAssetCache::<Empty>::remove::<u8>; // C01.T1
const _: fn(&mut LocalAssetCache<Empty>, &str) -> Option<u8> = LocalAssetCache::<Empty>::take::<u8>; // C01.T1
const _: fn(&mut LocalAssetCache<Empty>) = LocalAssetCache::<Empty>::clear; // C01.T1
// look-ups and insertions work through a shared borrow and hand out handles tied to that borrow
fn _c01_t2<'a>(c: &'a AssetCache<Empty>) -> &'a crate::Handle<u8> { // C01.T2
    c.get_or_insert::<u8>("a", 0) // C01.T2
} // C01.T2
fn _c01_t2b<'a>(c: &'a LocalAssetCache<Empty>) -> Option<&'a crate::Handle<u8>> { // C01.T2
    c.get_cached::<u8>("a") // C01.T2
} // C01.T2
