//! Harnesses / stub constructors hosted in `crate::hot_reloading::dependencies`. Overlay only.
#![allow(dead_code, unused_imports, unused_variables)]
use super::*;
use crate::hot_reloading::records::Dependencies;
use crate::amv::common::*;
use crate::amv::{cover, nd};

// ---- callee contract stubs for the graph functions (their bodies are out of CBMC's reach; contracts G2/G3/G5 of
//      DESIGN.md are ASSUMED). The stubs record how their callers use them. -------------------------------------------
pub(crate) static mut SORT_CALLS: u8 = 0;
pub(crate) static mut SORT_SAW: [bool; 2] = [false; 2]; // entry File(a,x) / File(b,x) offered to the sort
pub(crate) static mut SORT_SAW_N: u8 = 0;
pub(crate) static mut RELOAD_CALLS: u8 = 0;
pub(crate) static mut RELOAD_ORDER_OK: bool = true;
pub(crate) static mut CONTAINS_ANSWER: [bool; 2] = [false; 2];
pub(crate) static mut CONTAINS_CALLS: u8 = 0;

pub(crate) fn entry_index(e: &OwnedDirEntry) -> Option<usize> {
    match e {
        OwnedDirEntry::File(id, ext) if &**ext == "x" => Mem::idx(id),
        _ => None,
    }
}
/// G2 (assumed): lists each asset reachable from the offered entries exactly once, dependencies first.
/// Here: returns [key(a), key(b)] in pop order so that `into_iter()` (reversed) yields b then a... the caller must
/// simply reload every returned key once, in iteration order.
pub(crate) fn sort_rec<'a>(_this: &DepsGraph, iter: impl IntoIterator<Item = &'a OwnedDirEntry>) -> TopologicalSort {
    unsafe {
        SORT_CALLS += 1;
        for e in iter {
            SORT_SAW_N += 1;
            if let Some(i) = entry_index(e) {
                SORT_SAW[i] = true;
            }
        }
    }
    TopologicalSort(vec![OwnedKey::new_with("b".into(), tid(0)), OwnedKey::new_with("a".into(), tid(0))])
}
pub(crate) fn reload_rec(_this: &mut DepsGraph, _cache: crate::AnyCache, key: OwnedKey) {
    unsafe {
        // iteration order of TopologicalSort::into_iter is the reverse of the list: a first, then b
        let want = if RELOAD_CALLS == 0 { "a" } else { "b" };
        if &*key.id != want {
            RELOAD_ORDER_OK = false;
        }
        RELOAD_CALLS += 1;
    }
    std::mem::forget(key);
}
pub(crate) fn contains_rec(_this: &DepsGraph, key: &OwnedDirEntry) -> bool {
    unsafe {
        CONTAINS_CALLS += 1;
        match entry_index(key) {
            Some(i) => CONTAINS_ANSWER[i],
            None => false,
        }
    }
}

