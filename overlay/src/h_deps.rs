//! Harnesses / stub constructors hosted in `crate::hot_reloading::dependencies`. Overlay only.
#![allow(dead_code, unused_imports, unused_variables)]
use super::*;
use crate::hot_reloading::records::Dependencies;
use crate::amv::common::*;
use crate::amv::{cover, nd};

// ---- callee contract stubs for the graph functions (their bodies are out of CBMC's reach; contracts G2/G3/G5 of
//      DESIGN.md are ASSUMED). The stubs record how their callers use them. -------------------------------------------
pub(crate) static mut SORT_CALLS: u8 = 0;
/// when set, the sort stub answers "no asset is affected" (an entry the graph knows but that nobody records any more)
pub(crate) static mut SORT_EMPTY: bool = false;
pub(crate) static mut SORT_SAW: [bool; 2] = [false; 2]; // entry File(a,x) / File(b,x) offered to the sort
pub(crate) static mut SORT_SAW_N: u8 = 0;
pub(crate) static mut RELOAD_CALLS: u8 = 0;
pub(crate) static mut RELOAD_ORDER_OK: bool = true;
pub(crate) static mut CONTAINS_ANSWER: [bool; 2] = [false; 2];
pub(crate) static mut CONTAINS_CALLS: u8 = 0;

pub(crate) fn entry_index(e: &OwnedDirEntry) -> Option<usize> {
    match e {
        OwnedDirEntry::File(id, ext) if &**ext == "x" => Mem::idx(id),
        _ => None,
    }
}
/// G2 (assumed): lists each asset reachable from the offered entries exactly once, dependencies first.
/// Here: returns [key(a), key(b)] in pop order so that `into_iter()` (reversed) yields b then a... the caller must
/// simply reload every returned key once, in iteration order.
pub(crate) fn sort_rec<'a>(_this: &DepsGraph, iter: impl IntoIterator<Item = &'a OwnedDirEntry>) -> TopologicalSort {
    unsafe {
        SORT_CALLS += 1;
        for e in iter {
            SORT_SAW_N += 1;
            if let Some(i) = entry_index(e) {
                SORT_SAW[i] = true;
            }
        }
    }
    if unsafe { SORT_EMPTY } {
        return TopologicalSort(Vec::new());
    }
    TopologicalSort(vec![OwnedKey::new_with("b".into(), tid(0)), OwnedKey::new_with("a".into(), tid(0))])
}
pub(crate) fn reload_rec(_this: &mut DepsGraph, _cache: crate::AnyCache, key: OwnedKey) {
    unsafe {
        // iteration order of TopologicalSort::into_iter is the reverse of the list: a first, then b
        let want = if RELOAD_CALLS == 0 { "a" } else { "b" };
        if &*key.id != want {
            RELOAD_ORDER_OK = false;
        }
        RELOAD_CALLS += 1;
    }
    std::mem::forget(key);
}
pub(crate) fn contains_rec(_this: &DepsGraph, key: &OwnedDirEntry) -> bool {
    unsafe {
        CONTAINS_CALLS += 1;
        match entry_index(key) {
            Some(i) => CONTAINS_ANSWER[i],
            None => false,
        }
    }
}


// ================================================================================================
// The REAL graph code over the map stub with 2-3 slots (obligations declare `map_cap`): bounded in graph size.
// ================================================================================================
fn key(id: &str) -> OwnedKey {
    OwnedKey::new_with(id.into(), tid(0))
}
fn file(id: &str) -> Dependency {
    Dependency::File(id.into(), "x".into())
}
fn deps_of(v: Vec<Dependency>) -> crate::hot_reloading::records::Dependencies {
    crate::hot_reloading::records::amv_h::deps_of(v)
}
fn rdeps_has(g: &DepsGraph, node: &Dependency, who: &Dependency) -> bool {
    match g.0.get(node) {
        Some(n) => n.rdeps.contains(who),
        None => false,
    }
}
fn node_deps_has(g: &DepsGraph, node: &Dependency, what: &Dependency) -> bool {
    match g.0.get(node) {
        Some(n) => n.deps.iter().any(|d| d == what),
        None => false,
    }
}
/// unwinding bound 3 = map stub capacity 2 + 1: with 5 the same harnesses drive one CBMC process beyond 60 GB (the drop
/// glue and the visit of the nested map types are recursive)
macro_rules! graph_instances {
    ($( $name:ident => $body:expr; )*) => { $(
        #[kani::proof]
        #[kani::unwind(3)]
        pub(crate) fn $name() { $body }
    )* };
}

/// G1 — insert registers the asset with its dependency set and the reverse edges (graph of 2 nodes)
fn g1_insert() {
    let mut g = DepsGraph::new();
    let a = Dependency::Asset(key("a"));
    g.insert_asset(key("a"), deps_of(vec![file("f")]), Type::of::<A>());
    assert!(g.contains(&OwnedDirEntry::File("f".into(), "x".into())), "C06 an entry some asset recorded is known to the graph");
    assert!(!g.contains(&OwnedDirEntry::File("g".into(), "x".into())) && !g.contains(&OwnedDirEntry::Directory("f".into())), "C06 entries nobody recorded are unknown (their events are dropped)");
    assert!(rdeps_has(&g, &file("f"), &a), "C05 the recorded entry points back to the asset");
    assert!(node_deps_has(&g, &a, &file("f")), "C05 the asset's node holds its dependency set");
    match g.0.get(&a) { Some(n) => assert!(n.typ.is_some(), "C05 a registered asset can be reloaded"), None => assert!(false) }
    match g.0.get(&file("f")) { Some(n) => assert!(n.typ.is_none(), "C10 a file node is never reloaded itself"), None => assert!(false) }
    std::mem::forget(g);
}
/// G1 — re-inserting with another set rewires: new reverse edge added, old one removed (dependency sets are re-learned)
fn g1_rewire() {
    let mut g = DepsGraph::new();
    let a = Dependency::Asset(key("a"));
    g.insert_asset(key("a"), deps_of(vec![file("f")]), Type::of::<A>());
    g.insert_asset(key("a"), deps_of(vec![file("g")]), Type::of::<A>());
    assert!(rdeps_has(&g, &file("g"), &a), "C05 after a reload that reads something new, a change of the newly read entry reaches the asset");
    assert!(!rdeps_has(&g, &file("f"), &a), "C06 after a reload that no longer reads an entry, that entry no longer reaches the asset");
    assert!(node_deps_has(&g, &a, &file("g")) && !node_deps_has(&g, &a, &file("f")), "C05 dependency sets are re-learned at every reload");
    std::mem::forget(g);
}
/// G1 with two nodes only: an asset that read nothing before and reads `f` after its reload must be reachable from `f`;
/// and the other way round, an asset that stops reading `f` is no longer reached from it
fn g1_rewire_small(grow: bool) {
    let mut g = DepsGraph::new();
    let a = Dependency::Asset(key("a"));
    if grow {
        g.insert_asset(key("a"), deps_of(vec![]), Type::of::<A>());
        g.insert_asset(key("a"), deps_of(vec![file("f")]), Type::of::<A>());
        assert!(rdeps_has(&g, &file("f"), &a), "C05 after a reload that reads something new, a change of the newly read entry reaches the asset");
        assert!(node_deps_has(&g, &a, &file("f")), "C05 dependency sets are re-learned at every reload");
    } else {
        g.insert_asset(key("a"), deps_of(vec![file("f")]), Type::of::<A>());
        g.insert_asset(key("a"), deps_of(vec![]), Type::of::<A>());
        assert!(!rdeps_has(&g, &file("f"), &a), "C06 after a reload that no longer reads an entry, that entry no longer reaches the asset");
        assert!(!node_deps_has(&g, &a, &file("f")), "C05 dependency sets are re-learned at every reload");
    }
    std::mem::forget(g);
}
/// G2 — sort from a changed file lists the asset once; from an unknown entry lists nothing
fn g2_sort_one() {
    let mut g = DepsGraph::new();
    g.insert_asset(key("a"), deps_of(vec![file("f")]), Type::of::<A>());
    let (ef, eu) = (OwnedDirEntry::File("f".into(), "x".into()), OwnedDirEntry::File("u".into(), "x".into()));
    let mut it = g.topological_sort_from([&ef, &eu, &ef]).into_iter();
    assert!(it.len() == 1, "C06 each affected asset appears once in the update list, also for duplicated and unknown events");
    match it.next() { Some(k) => assert!(&*k.id == "a"), None => assert!(false) }
    let it2 = g.topological_sort_from([&eu]).into_iter();
    assert!(it2.len() == 0, "C06 an event for an entry nobody recorded reloads nothing");
    std::mem::forget(g);
}
/// G2 — chain file -> a -> b: dependencies are refreshed before their dependents (graph of 3 nodes)
fn g2_chain_order() {
    let mut g = DepsGraph::new();
    g.insert_asset(key("b"), deps_of(vec![Dependency::Asset(key("a"))]), Type::of::<A>());
    g.insert_asset(key("a"), deps_of(vec![file("f")]), Type::of::<A>());
    let ef = OwnedDirEntry::File("f".into(), "x".into());
    let mut it = g.topological_sort_from([&ef]).into_iter();
    assert!(it.len() == 2, "C05 a change reaches the transitive dependents");
    match (it.next(), it.next()) {
        (Some(k1), Some(k2)) => assert!(&*k1.id == "a" && &*k2.id == "b", "C05 dependencies are refreshed before their dependents"),
        _ => assert!(false),
    }
    std::mem::forget(g);
}
/// C08 — two assets that look each other up (cyclic reverse dependencies): the visit terminates and lists each once
fn g2_cycle_terminates() {
    let mut g = DepsGraph::new();
    g.insert_asset(key("a"), deps_of(vec![Dependency::Asset(key("b"))]), Type::of::<A>());
    g.insert_asset(key("b"), deps_of(vec![Dependency::Asset(key("a"))]), Type::of::<A>());
    let ea = key("a");
    let mut sd = TopologicalSortData { visited: crate::utils::HashSet::new(), list: Vec::new() };
    g.visit(&mut sd, BorrowedDependency::Asset(&ea));
    assert!(sd.list.len() == 2, "C08 assets that look each other up are each listed once");
    std::mem::forget(sd);
    std::mem::forget(g);
}
graph_instances! {
    c05_g1_insert => g1_insert();
    c05_g1_rewire_grow => g1_rewire_small(true);
    c05_g1_rewire_shrink => g1_rewire_small(false);
}
// NOT registered in obligations.toml — measured on the pinned tree with map_cap 2 / 3: a single CBMC process grows
// beyond 60 GB (rewire, two inserts) or does not finish symbolic execution in 50 min (sort / visit). Kept so that the
// obligations are written down and can be tried again with a better back end.
graph_instances! {
    x_c05_g1_rewire => g1_rewire();
    x_c05_g2_sort_one => g2_sort_one();
    x_c05_g2_chain_order => g2_chain_order();
    x_c08_g2_cycle_terminates => g2_cycle_terminates();
}

// ---- recorder for DepsGraph::insert_asset (C05.K8) -------------------------------------------------------------------------
pub(crate) static mut INSERT_CALLS: u8 = 0;
pub(crate) static mut INSERT_ID0: u8 = 0;
pub(crate) static mut INSERT_TY_IS_A: bool = false;
pub(crate) static mut INSERT_NDEPS: usize = 0;
pub(crate) static mut INSERT_HAS_FILE_AND_DIR: bool = false;
pub(crate) fn insert_asset_rec(_this: &mut DepsGraph, asset_key: OwnedKey, deps: crate::hot_reloading::records::Dependencies, typ: Type) {
    use crate::hot_reloading::records::amv_h::{count, dep_dir, dep_file, has};
    unsafe {
        INSERT_CALLS += 1;
        INSERT_ID0 = asset_key.id.as_bytes()[0];
        INSERT_TY_IS_A = tid_eq(asset_key.type_id, tid(0)) && tid_eq(typ.type_id, tid(0));
        INSERT_NDEPS = count(&deps);
        INSERT_HAS_FILE_AND_DIR = has(&deps, &dep_file("a", "x")) && has(&deps, &dep_dir("d"));
    }
    std::mem::forget(deps);
    std::mem::forget(asset_key);
}
