//! Harnesses hosted in `crate::source`. Overlay only.
#![allow(dead_code, unused_imports, unused_variables)]
use super::*;
use crate::amv::{cover, nd};
use std::borrow::Cow;

macro_rules! instances {
    ($( $name:ident => $body:expr; )*) => { $(
        #[cfg_attr(kani, kani::proof)]
        #[cfg_attr(amv_replay, test)]
        #[cfg_attr(kani, kani::unwind(6))]
        pub(crate) fn $name() { $body }
    )* };
}

/// C03.K2 — FileContent::with_cow / as_ref hand over exactly the stored bytes, for every variant
fn with_cow(variant: u8) {
    let data: [u8; 4] = [nd(), nd(), nd(), nd()];
    let len: usize = (nd::<u8>() % 5) as usize;
    let i: usize = (nd::<u8>() % 4) as usize;
    let fc = match variant {
        0 => FileContent::Slice(&data[..len]),
        1 => FileContent::Buffer(data[..len].to_vec()),
        2 => FileContent::from_owned(data[..len].to_vec()),
        3 => FileContent::from(&data[..len]),
        _ => FileContent::from(data[..len].to_vec()),
    };
    assert!(fc.as_ref().len() == len && (i >= len || fc.as_ref()[i] == data[i]), "C03 as_ref shows exactly the stored bytes");
    let (l2, b2, borrowed) = fc.with_cow(|c| {
        let b = matches!(c, Cow::Borrowed(_));
        (c.len(), if i < c.len() { c[i] } else { 0 }, b)
    });
    assert!(l2 == len, "C03 with_cow hands over all the stored bytes and nothing more");
    assert!(i >= len || b2 == data[i], "C03 with_cow hands over exactly the stored bytes");
    assert!(borrowed == (variant != 1 && variant != 4), "Slice/Owned are lent, Buffer is given");
}
instances! {
    c03_k2_with_cow_slice => with_cow(0);
    c03_k2_with_cow_buffer => with_cow(1);
    c03_k2_with_cow_owned => with_cow(2);
    c03_k2_with_cow_from_slice => with_cow(3);
    c03_k2_with_cow_from_vec => with_cow(4);
}
