//! Harnesses hosted in `crate::entry` (child module: private items are reachable). Overlay only.
#![allow(dead_code, unused_imports, unused_variables)]
use super::*;
use crate::amv::{cover, nd};

// ------------------------------------------------------------------------------------------------
// C18 — ReloadId / AtomicReloadId
// ------------------------------------------------------------------------------------------------

/// C18.K1: ReloadId::update stores max(old,new), returns true iff it grew; NEVER is least; Default = NEVER.
#[cfg_attr(kani, kani::proof)]
#[cfg_attr(amv_replay, test)]
pub(crate) fn c18_k1_reload_id_update() {
    let a: usize = nd();
    let b: usize = nd();
    let mut x = ReloadId(a);
    let r = x.update(ReloadId(b));
    assert!(x.0 == if a > b { a } else { b }, "C18.K1 stored id is max(old,new)");
    assert!(r == (b > a), "C18.K1 update returns true iff the stored id grew");
    assert!(x.0 >= a, "C18.K1 monotone");
    assert!(ReloadId::NEVER <= ReloadId(a), "C18.K1 NEVER is the least id");
    assert!(ReloadId::default() == ReloadId::NEVER, "C18.K1 default is NEVER");
    let mut n = ReloadId::NEVER;
    assert!(n.update(ReloadId(b)) == (b != 0), "C18.K1 update from NEVER");
    cover!(r);
    cover!(!r && a == b);
    cover!(!r && a > b);
}

/// C18.K2: AtomicReloadId sequential contracts over all usize.
#[cfg_attr(kani, kani::proof)]
#[cfg_attr(amv_replay, test)]
pub(crate) fn c18_k2_atomic_update() {
    let a: usize = nd();
    let b: usize = nd();
    let x = AtomicReloadId::with_value(ReloadId(a));
    assert!(x.load().0 == a, "C18.K2 with_value/load");
    let r = x.update(ReloadId(b));
    assert!(x.load().0 == if a > b { a } else { b }, "C18.K2 update stores max(old,new)");
    assert!(r == (b > a), "C18.K2 update returns true iff the stored id grew");
    cover!(r);
    cover!(!r);
}

#[cfg_attr(kani, kani::proof)]
#[cfg_attr(amv_replay, test)]
pub(crate) fn c18_k2_atomic_primitives() {
    let a: usize = nd();
    let b: usize = nd();
    let c: usize = nd();
    let x = AtomicReloadId::new();
    assert!(x.load() == ReloadId::NEVER, "C18.K2 new() is NEVER");
    let d = AtomicReloadId::default();
    assert!(d.load() == ReloadId::NEVER, "C18.K2 default() is NEVER");
    x.store(ReloadId(a));
    assert!(x.load().0 == a, "C18.K2 store/load");
    let old = x.fetch_max(ReloadId(b));
    assert!(old.0 == a, "C18.K2 fetch_max returns the previous id");
    let m = if a > b { a } else { b };
    assert!(x.load().0 == m, "C18.K2 fetch_max stores the maximum");
    let old2 = x.swap(ReloadId(c));
    assert!(old2.0 == m, "C18.K2 swap returns the previous id");
    assert!(x.load().0 == c, "C18.K2 swap stores the new id");
    cover!(a > b);
    cover!(a < b);
}
