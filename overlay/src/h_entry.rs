//! Harnesses hosted in `crate::entry` (child module: private items are reachable). Overlay only.
#![allow(dead_code, unused_imports, unused_variables)]
use super::*;
use crate::amv::{cover, nd};

// ------------------------------------------------------------------------------------------------
// C18 — ReloadId / AtomicReloadId
// ------------------------------------------------------------------------------------------------

/// C18.K1: ReloadId::update stores max(old,new), returns true iff it grew; NEVER is least; Default = NEVER.
#[cfg_attr(kani, kani::proof)]
#[cfg_attr(amv_replay, test)]
pub(crate) fn c18_k1_reload_id_update() {
    let a: usize = nd();
    let b: usize = nd();
    let mut x = ReloadId(a);
    let r = x.update(ReloadId(b));
    assert!(x.0 == if a > b { a } else { b }, "C18.K1 stored id is max(old,new)");
    assert!(r == (b > a), "C18.K1 update returns true iff the stored id grew");
    assert!(x.0 >= a, "C18.K1 monotone");
    assert!(ReloadId::NEVER <= ReloadId(a), "C18.K1 NEVER is the least id");
    assert!(ReloadId::default() == ReloadId::NEVER, "C18.K1 default is NEVER");
    let mut n = ReloadId::NEVER;
    assert!(n.update(ReloadId(b)) == (b != 0), "C18.K1 update from NEVER");
    cover!(r);
    cover!(!r && a == b);
    cover!(!r && a > b);
}

/// C18.K2: AtomicReloadId sequential contracts over all usize.
#[cfg_attr(kani, kani::proof)]
#[cfg_attr(amv_replay, test)]
pub(crate) fn c18_k2_atomic_update() {
    let a: usize = nd();
    let b: usize = nd();
    let x = AtomicReloadId::with_value(ReloadId(a));
    assert!(x.load().0 == a, "C18.K2 with_value/load");
    let r = x.update(ReloadId(b));
    assert!(x.load().0 == if a > b { a } else { b }, "C18.K2 update stores max(old,new)");
    assert!(r == (b > a), "C18.K2 update returns true iff the stored id grew");
    cover!(r);
    cover!(!r);
}

#[cfg_attr(kani, kani::proof)]
#[cfg_attr(amv_replay, test)]
pub(crate) fn c18_k2_atomic_primitives() {
    let a: usize = nd();
    let b: usize = nd();
    let c: usize = nd();
    let x = AtomicReloadId::new();
    assert!(x.load() == ReloadId::NEVER, "C18.K2 new() is NEVER");
    let d = AtomicReloadId::default();
    assert!(d.load() == ReloadId::NEVER, "C18.K2 default() is NEVER");
    x.store(ReloadId(a));
    assert!(x.load().0 == a, "C18.K2 store/load");
    let old = x.fetch_max(ReloadId(b));
    assert!(old.0 == a, "C18.K2 fetch_max returns the previous id");
    let m = if a > b { a } else { b };
    assert!(x.load().0 == m, "C18.K2 fetch_max stores the maximum");
    let old2 = x.swap(ReloadId(c));
    assert!(old2.0 == m, "C18.K2 swap returns the previous id");
    assert!(x.load().0 == c, "C18.K2 swap stores the new id");
    cover!(a > b);
    cover!(a < b);
}

// ================================================================================================
// entry-level contracts (feature hot-reloading for the dynamic arm)
// ================================================================================================
use crate::amv::common::*;

macro_rules! instances {
    ($( $name:ident => $body:expr; )*) => { $(
        #[cfg_attr(kani, kani::proof)]
        #[cfg_attr(amv_replay, test)]
        #[cfg_attr(kani, kani::unwind(6))]
        pub(crate) fn $name() { $body }
    )* };
}
macro_rules! panicking_instances {
    ($( $name:ident => $body:expr; )*) => { $(
        #[cfg(kani)]
        #[kani::proof]
        #[kani::should_panic]
        #[kani::unwind(6)]
        pub(crate) fn $name() { $body }
    )* };
}

fn is_dynamic(e: &CacheEntry) -> bool {
    #[cfg(feature = "hot-reloading")]
    {
        e.0.dynamic.is_some()
    }
    #[cfg(not(feature = "hot-reloading"))]
    {
        false
    }
}

// ---- C10.K1: CacheEntry::new is dynamic <=> T::HOT_RELOADED && mutable(); mutable() is consulted only for hot-reloaded types
fn c10_new<T: Storable + Mk>(hot: bool) {
    let m: bool = nd();
    let mut calls = 0u8;
    let e = CacheEntry::new(T::mk(nd()), "a".into(), || {
        calls += 1;
        m
    });
    assert!(T::HOT_RELOADED == hot);
    let expect = cfg!(feature = "hot-reloading") && hot && m;
    assert!(is_dynamic(&e) == expect, "C10 an entry is reloadable (dynamic) iff its type is hot-reloaded and the cache has a reloader");
    assert!(hot || calls == 0, "C10 `mutable` is not consulted for a type that opted out");
    assert!(e.inner().last_reload_id() == ReloadId::NEVER, "C06 the reload id of a fresh entry is NEVER");
    assert!(!e.inner().reloaded_global(), "C06 a fresh entry was not reloaded");
    let mut w = e.inner().reload_watcher();
    assert!(!w.reloaded(), "C06 a fresh watcher reports false");
    assert!(&**e.id() == "a" && e.type_id() == TypeId::of::<T>(), "entry carries its key");
    std::mem::forget(e);
}
instances! {
    c10_k1_new_a => c10_new::<A>(true);
    c10_k1_new_s => c10_new::<S>(false);
    c10_k1_new_p => c10_new::<P>(false);
}

// ---- C10.K4: Handle::get returns the stored reference for static entries; panics on a dynamic one
fn c10_get_static() {
    let v: u8 = nd();
    let e = CacheEntry::new(S(v), "a".into(), || true);
    let h = e.inner().downcast_ref_ok::<S>();
    assert!(h.get().0 == v, "C10 Handle::get returns the stored value");
    assert!(h.get() as *const S == &*h.read() as *const S, "C10 Handle::get and read() see the same object");
    assert!(h.last_reload_id() == ReloadId::NEVER && !h.reloaded_global(), "C10 static entries are never marked reloaded");
    std::mem::forget(e);
}
instances! {
    c10_k4_get_static => c10_get_static();
}
#[cfg(feature = "hot-reloading")]
panicking_instances! {
    c10_k4_get_dynamic_panics => {
        // a dynamic entry viewed as a NotHotReloaded type cannot be built through the API; forge one
        let e = CacheEntry(Box::new(EntryStorage::new_dynamic("a".into(), S(1))));
        let h = e.inner().downcast_ref_ok::<S>();
        let _ = h.get();
        std::mem::forget(e);
    };
}

// ---- C06.K1 / C13.K2: UntypedEntry::write ------------------------------------------------------------------
#[cfg(feature = "hot-reloading")]
fn write_step<T: Tracked>() {
    let (v0, v1): (u8, u8) = (nd(), nd());
    let e = CacheEntry::new(T::mk(v0), "a".into(), || true);
    assert!(is_dynamic(&e));
    let h = e.inner();
    let typed = h.downcast_ref_ok::<T>();
    let mut w = h.reload_watcher();
    let mut w2 = typed.reload_watcher();
    let id0 = h.last_reload_id();
    let d0 = drops(T::IX);
    let new = CacheEntry::new(T::mk(v1), "a".into(), || true);
    h.write(new);
    assert!(typed.read().val() == T::mk(v1).val(), "C06/C13 after a reload the handle reads the new value");
    assert!(h.last_reload_id().0 == id0.0 + 1, "C06 reload id grows by exactly one per successful rewrite");
    assert!(drops(T::IX) == d0 + 1 + 1, "C13 the replaced value is dropped exactly once (plus the probe temporary)");
    assert!(typed.last_reload_id() == h.last_reload_id(), "typed and untyped handle agree");
    assert!(w.reloaded(), "C06 a watcher reports the reload");
    assert!(!w.reloaded(), "C06 a watcher reports each reload once");
    assert!(w2.reloaded() && !w2.reloaded(), "C06 every watcher reports the reload once");
    assert!(h.reloaded_global(), "C06 reloaded_global reports the reload");
    assert!(!h.reloaded_global() && !typed.reloaded_global(), "C06 reloaded_global reports it once for all handles");
    assert!(crate::amv::lock_counts() == (0, 0), "C07 the entry lock is free after write");
    let dn = drops(T::IX);
    drop(e);
    assert!(drops(T::IX) == dn + 1, "C13 dropping the entry drops the current value exactly once");
}
#[cfg(feature = "hot-reloading")]
instances! {
    c06_k1_write_d0 => write_step::<D0>();
    c06_k1_write_d1 => write_step::<D1>();
    c06_k1_write_dh => write_step::<DH>();
    c06_k1_write_dw => write_step::<DW>();
}
#[cfg(feature = "hot-reloading")]
panicking_instances! {
    c06_k1_write_static_panics => {
        let e = CacheEntry::new(A(1), "a".into(), || false);
        let new = CacheEntry::new(A(2), "a".into(), || false);
        e.inner().write(new);
    };
    c13_k3_write_wrong_type_panics => {
        let e = CacheEntry::new(A(1), "a".into(), || true);
        let new = CacheEntry::new(B(2), "a".into(), || true);
        e.inner().write(new);
    };
}

// ---- C06.K3: ReloadWatcher compare-and-advance over all counter values --------------------------------------------
#[cfg(feature = "hot-reloading")]
fn c06_watcher() {
    let (c0, c1): (usize, usize) = (nd(), nd());
    let e = CacheEntry::new(A(0), "a".into(), || true);
    let d = match &e.0.dynamic { Some(d) => d, None => unreachable!() };
    d.reload.store(ReloadId(c0));
    let mut w = e.inner().reload_watcher();
    assert!(w.last_reload_id().0 == c0);
    assert!(!w.reloaded(), "C06 a watcher created after a reload does not report it");
    d.reload.store(ReloadId(c1));
    let r = w.reloaded();
    assert!(r == (c1 > c0), "C06 reloaded() is true iff the counter advanced since the last poll");
    assert!(!w.reloaded(), "C06 and then false until the next reload");
    let g: bool = nd();
    d.reload_global.store(g, Ordering::Release);
    assert!(e.inner().reloaded_global() == g && !e.inner().reloaded_global(), "C06 reloaded_global = swap(false)");
    let mut dflt = ReloadWatcher::default();
    assert!(!dflt.reloaded() && dflt.last_reload_id() == ReloadId::NEVER, "C06 the default watcher never reports");
    std::mem::forget(e);
}
#[cfg(feature = "hot-reloading")]
instances! {
    c06_k3_watcher => c06_watcher();
}

// ---- C07.K1: a read guard holds the read lock for its whole life (also across map / try_map / downcast) ---------------------
#[cfg(all(kani, feature = "hot-reloading"))]
fn readers() -> isize {
    unsafe { crate::amv::vsync::G_READERS }
}
#[cfg(all(kani, feature = "hot-reloading"))]
fn c07_guard(dynamic: bool) {
    let v: u8 = nd();
    let e = CacheEntry::new(A(v), "a".into(), || dynamic);
    let h = e.inner().downcast_ref_ok::<A>();
    let held: isize = if dynamic { 1 } else { 0 };
    assert!(readers() == 0);
    {
        let g = h.read();
        assert!(readers() == held, "C07 read() holds the entry's read lock while the guard lives");
        assert!(g.0 == v);
        let g2 = AssetReadGuard::map(g, |a| &a.0);
        assert!(readers() == held, "C07 map keeps the read lock");
        assert!(*g2 == v);
        let g3 = match AssetReadGuard::try_map(g2, |b| Some(b)) { Ok(g) => g, Err(_) => unreachable!() };
        assert!(readers() == held, "C07 try_map (Some) keeps the read lock");
        let g4 = match AssetReadGuard::try_map(g3, |_b| None::<&u8>) { Ok(_) => unreachable!(), Err(g) => g };
        assert!(readers() == held, "C07 try_map (None) hands the locked guard back");
        assert!(*g4 == v);
    }
    assert!(readers() == 0, "C07 dropping the guard releases the read lock");
    {
        let u = e.inner().read();
        assert!(readers() == held, "C07 untyped read() holds the read lock");
        let t = match u.downcast::<A>() { Ok(t) => t, Err(_) => unreachable!() };
        assert!(readers() == held && t.0 == v, "C07 downcast keeps the read lock");
    }
    assert!(readers() == 0);
    {
        let u = e.inner().read();
        match u.downcast::<B>() { Ok(_) => assert!(false, "C13 a guard cannot be viewed as another type"), Err(back) => assert!(readers() == held, "C07 failed downcast hands the locked guard back") };
    }
    assert!(readers() == 0);
    let c1 = h.copied_via_read();
    std::mem::forget(e);
}
#[cfg(all(kani, feature = "hot-reloading"))]
impl Handle<A> {
    fn copied_via_read(&self) -> u8 {
        let r = self.read().0;
        assert!(readers() == 0, "C07 a temporary guard is released at the end of the statement");
        r
    }
}
#[cfg(all(kani, feature = "hot-reloading"))]
instances! {
    c07_k1_guard_dynamic => c07_guard(true);
    c07_k1_guard_static => c07_guard(false);
}

// ---- C07.K2: swap, counter increment and flag store of write() happen inside the write-held section -----------------------------
// callee contract stubs (the callees' own contracts are C06.K1/C13.K2, proved on the real functions): same effect + lock-state check
#[cfg(all(kani, feature = "hot-reloading"))]
pub(crate) static mut IN_WRITE_SECTION: [u8; 3] = [0; 3];
#[cfg(all(kani, feature = "hot-reloading"))]
unsafe fn swap_any_checked(a: &mut dyn Any, b: &mut dyn Any) {
    assert!(crate::amv::vsync::G_WRITERS == 1, "C07 the value is swapped only while the entry's write lock is held");
    IN_WRITE_SECTION[0] += 1;
    let len = std::mem::size_of_val(a);
    std::ptr::swap_nonoverlapping(a as *mut dyn Any as *mut u8, b as *mut dyn Any as *mut u8, len);
}
#[cfg(all(kani, feature = "hot-reloading"))]
fn increment_checked(this: &AtomicReloadId) {
    unsafe {
        assert!(crate::amv::vsync::G_WRITERS == 1, "C07 the reload id changes only while the entry's write lock is held");
        assert!(IN_WRITE_SECTION[0] == 1, "C06 the reload id is incremented after the swap");
        IN_WRITE_SECTION[1] += 1;
    }
    this.0.fetch_add(1, Ordering::Release);
}
#[cfg(all(kani, feature = "hot-reloading"))]
fn flag_store_checked(this: &AtomicBool, val: bool, _o: Ordering) {
    unsafe {
        assert!(crate::amv::vsync::G_WRITERS == 1, "C07 the reloaded flag is set only while the entry's write lock is held");
        assert!(IN_WRITE_SECTION[0] == 1, "C06 the reloaded flag is set after the swap");
        IN_WRITE_SECTION[2] += 1;
    }
    this.swap(val, Ordering::AcqRel);
}
#[cfg(all(kani, feature = "hot-reloading"))]
#[kani::proof]
#[kani::unwind(6)]
#[kani::stub(swap_any, swap_any_checked)]
#[kani::stub(AtomicReloadId::increment, increment_checked)]
#[kani::stub(std::sync::atomic::Atomic::<bool>::store, flag_store_checked)]
pub(crate) fn c07_k2_write_section() {
    let (v0, v1): (u8, u8) = (nd(), nd());
    let e = CacheEntry::new(A(v0), "a".into(), || true);
    let new = CacheEntry::new(A(v1), "a".into(), || true);
    e.inner().write(new);
    unsafe {
        assert!(IN_WRITE_SECTION[0] == 1 && IN_WRITE_SECTION[1] == 1 && IN_WRITE_SECTION[2] == 1, "C06/C07 write = one swap, one increment, one flag store");
        assert!(crate::amv::vsync::G_WRITERS == 0, "C07 write releases the lock");
    }
    assert!(e.inner().downcast_ref_ok::<A>().read().0 == v1);
    std::mem::forget(e);
}
// ---- C07.K3: write() while a read guard is alive would block (documents the hot_reload precondition) ---------------
#[cfg(feature = "hot-reloading")]
panicking_instances! {
    c07_k3_write_blocks_under_guard => {
        let e = CacheEntry::new(A(1), "a".into(), || true);
        let g = e.inner().read();
        e.inner().write(CacheEntry::new(A(2), "a".into(), || true));
        drop(g);
    };
}

// ---- C13.K1: CacheEntry::{new, into_inner, drop} for four layouts ----------------------------------------------------
fn c13_entry<T: Tracked>(dynamic: bool) {
    let v: u8 = nd();
    let d0 = drops(T::IX);
    let e = CacheEntry::new(T::mk(v), "a".into(), || dynamic);
    assert!(e.inner().is::<T>() && !e.inner().is::<A>(), "C13 an entry is of its creation type only");
    assert!(e.inner().downcast_ref::<A>().is_none() && e.inner().downcast_ref::<B>().is_none(), "C13 viewing an entry as another type yields None");
    match e.inner().downcast_ref::<T>() {
        Some(h) => assert!(h.read().val() == T::mk(v).val(), "C13 the creation type reads the stored value"),
        None => assert!(false, "C13 the creation type must downcast"),
    }
    assert!(drops(T::IX) == d0 + 1, "only the probe temporary was dropped so far");
    let take: bool = nd();
    if take {
        let (val, id) = e.into_inner::<T>();
        assert!(drops(T::IX) == d0 + 1, "C13 into_inner/take hands the value to the caller without dropping it");
        assert!(val.val() == T::mk(v).val() && &*id == "a", "C02 take hands back the stored value");
        drop(val);
        assert!(drops(T::IX) == d0 + 3, "C13 the caller's drop is the only drop");
    } else {
        drop(e);
        assert!(drops(T::IX) == d0 + 2, "C13 dropping an entry drops its value exactly once");
    }
}
instances! {
    c13_k1_entry_d0 => c13_entry::<D0>(false);
    c13_k1_entry_d1 => c13_entry::<D1>(false);
    c13_k1_entry_dh => c13_entry::<DH>(false);
    c13_k1_entry_da => c13_entry::<DA>(false);
}
#[cfg(feature = "hot-reloading")]
instances! {
    c13_k1_entry_dyn_dh => c13_entry::<DH>(true);
    c13_k1_entry_dyn_da => c13_entry::<DA>(true);
}
panicking_instances! {
    c13_k3_into_inner_wrong_type_panics => {
        let e = CacheEntry::new(A(1), "a".into(), || false);
        let _ = e.into_inner::<B>();
    };
    c13_k3_downcast_ref_ok_wrong_type_panics => {
        let e = CacheEntry::new(A(1), "a".into(), || false);
        let _ = e.inner().downcast_ref_ok::<B>();
    };
}

// ---- C18.K3 — AtomicReloadId::update performs exactly ONE atomic access and it is a read-modify-write -------------------------
// (the hypothesis of the linearization lemma C18.V2; semantic counterpart of the syntactic C18.S1). The atomic operations
// of std are replaced by counting contract stubs; a load-compare-store rewrite satisfies the sequential contract C18.K2
// but performs two non-RMW accesses.
#[cfg(kani)]
static mut ATOMIC_RMW: u8 = 0;
#[cfg(kani)]
static mut ATOMIC_PLAIN: u8 = 0;
#[cfg(kani)]
fn a_load(this: &AtomicUsize, _o: Ordering) -> usize {
    unsafe {
        ATOMIC_PLAIN += 1;
        *this.as_ptr()
    }
}
#[cfg(kani)]
fn a_store(this: &AtomicUsize, v: usize, _o: Ordering) {
    unsafe {
        ATOMIC_PLAIN += 1;
        *this.as_ptr() = v;
    }
}
#[cfg(kani)]
fn a_fetch_max(this: &AtomicUsize, v: usize, _o: Ordering) -> usize {
    unsafe {
        ATOMIC_RMW += 1;
        let old = *this.as_ptr();
        *this.as_ptr() = if v > old { v } else { old };
        old
    }
}
#[cfg(kani)]
fn a_swap(this: &AtomicUsize, v: usize, _o: Ordering) -> usize {
    unsafe {
        ATOMIC_RMW += 1;
        let old = *this.as_ptr();
        *this.as_ptr() = v;
        old
    }
}
#[cfg(kani)]
fn a_cas(this: &AtomicUsize, cur: usize, new: usize, _s: Ordering, _f: Ordering) -> Result<usize, usize> {
    unsafe {
        ATOMIC_RMW += 1;
        let old = *this.as_ptr();
        if old == cur {
            *this.as_ptr() = new;
            Ok(old)
        } else {
            Err(old)
        }
    }
}
#[cfg(kani)]
#[kani::proof]
#[kani::stub(std::sync::atomic::Atomic::<usize>::load, a_load)]
#[kani::stub(std::sync::atomic::Atomic::<usize>::store, a_store)]
#[kani::stub(std::sync::atomic::Atomic::<usize>::fetch_max, a_fetch_max)]
#[kani::stub(std::sync::atomic::Atomic::<usize>::swap, a_swap)]
#[kani::stub(std::sync::atomic::Atomic::<usize>::compare_exchange, a_cas)]
#[kani::stub(std::sync::atomic::Atomic::<usize>::compare_exchange_weak, a_cas)]
pub(crate) fn c18_k3_update_is_one_rmw() {
    let (a, b): (usize, usize) = (nd(), nd());
    let x = AtomicReloadId::with_value(ReloadId(a));
    unsafe {
        ATOMIC_RMW = 0;
        ATOMIC_PLAIN = 0;
    }
    let r = x.update(ReloadId(b));
    unsafe {
        assert!(ATOMIC_RMW == 1 && ATOMIC_PLAIN == 0, "C18 AtomicReloadId::update is exactly one atomic read-modify-write (otherwise concurrent offers can be lost or reported twice)");
    }
    assert!(r == (b > a), "C18 update returns true iff the stored id grew");
    let y = AtomicReloadId::with_value(ReloadId(a));
    unsafe {
        ATOMIC_RMW = 0;
        ATOMIC_PLAIN = 0;
    }
    let old = y.fetch_max(ReloadId(b));
    unsafe {
        assert!(ATOMIC_RMW == 1 && ATOMIC_PLAIN == 0, "C18 fetch_max is one atomic read-modify-write");
    }
    assert!(old.0 == a);
}

// ---- true Kani function contracts (modular route): the contract is attached to the real function by the overlay ------------
#[cfg(kani)]
#[kani::proof_for_contract(ReloadId::update)]
pub(crate) fn c18_k4_contract_reload_id_update() {
    let mut x = ReloadId(kani::any());
    let _ = x.update(ReloadId(kani::any()));
}
// NOTE: a caller harness with `#[kani::stub_verified(ReloadId::update)]` (ReloadWatcher::reloaded against update's contract)
// makes Kani 0.68 panic in reachability.rs:425 (internal compiler error), so the contract is proved but not used modularly.

// ---- C01 — a handle stays valid and readable: accessors agree with the entry they view ------------------------------------------
fn handle_accessors(dynamic: bool) {
    let v: u8 = nd();
    let e = CacheEntry::new(A(v), "a".into(), || dynamic);
    let u = e.inner();
    let h = u.downcast_ref_ok::<A>();
    assert!(&**h.id() == "a" && &**u.id() == "a", "C01 a handle carries the id of its entry");
    assert!(h.as_untyped() as *const UntypedHandle as *const () == u as *const UntypedHandle as *const (), "C01 typed and untyped views are the same handle");
    assert!(h.read().0 == v && h.read().0 == v, "C01 a handle stays readable (read after read)");
    assert!(u.is::<A>() && !u.is::<B>());
    match u.read().downcast::<A>() { Ok(g) => assert!(g.0 == v), Err(_) => assert!(false, "C13 the creation type downcasts") }
    assert!(crate::amv::lock_counts() == (0, 0), "C07 temporaries release the lock");
    std::mem::forget(e);
}
#[derive(Clone, Copy)]
struct Cp(u8);
impl Storable for Cp {}
fn copied_cloned() {
    let v: u8 = nd();
    let e = CacheEntry::new(Cp(v), "a".into(), || true);
    let h = e.inner().downcast_ref_ok::<Cp>();
    assert!(h.copied().0 == v && h.cloned().0 == v, "copied / cloned return the stored value");
    std::mem::forget(e);
}
instances! {
    c01_k7_handle_accessors_static => handle_accessors(false);
    c01_k7_handle_accessors_dynamic => handle_accessors(true);
    c01_k7_copied_cloned => copied_cloned();
}
