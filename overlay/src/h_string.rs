//! Harnesses hosted in `crate::utils::string`: SharedString. Overlay only.
#![allow(dead_code, unused_imports, unused_variables)]
use super::*;
use crate::amv::{cover, nd};

/// C16.K5 — from_utf8 accepts exactly what str::from_utf8 accepts and then dereferences to that str
fn utf8(len: usize) {
    let data: [u8; 3] = [nd(), nd(), nd()];
    let s = &data[..len];
    let r = SharedString::from_utf8(SharedBytes::from_slice(s));
    match (str::from_utf8(s), r) {
        (Ok(st), Ok(ss)) => {
            assert!(ss.as_str().len() == st.len() && ss.as_str() == st, "C16 a SharedString dereferences to valid UTF-8 equal to its source");
            let bytes = ss.clone().into_bytes();
            assert!(bytes.len() == len, "into_bytes hands the same buffer back");
            let i = (nd::<u8>() % 3) as usize;
            assert!(i >= len || bytes[i] == data[i]);
            assert!(str::from_utf8(&bytes).is_ok(), "C16 the bytes behind a SharedString are always valid UTF-8");
        }
        (Err(_), Err(_)) => {}
        (Ok(_), Err(_)) => assert!(false, "C16 from_utf8 must accept valid UTF-8"),
        (Err(_), Ok(_)) => assert!(false, "C16 from_utf8 must reject invalid UTF-8"),
    }
}
#[cfg_attr(kani, kani::proof)]
#[cfg_attr(kani, kani::unwind(8))]
pub(crate) fn c16_k5_utf8_len0() {
    utf8(0)
}
#[cfg_attr(kani, kani::proof)]
#[cfg_attr(kani, kani::unwind(8))]
pub(crate) fn c16_k5_utf8_len1() {
    utf8(1)
}
#[cfg_attr(kani, kani::proof)]
#[cfg_attr(kani, kani::unwind(8))]
pub(crate) fn c16_k5_utf8_len2() {
    utf8(2)
}
#[cfg_attr(kani, kani::proof)]
#[cfg_attr(kani, kani::unwind(8))]
pub(crate) fn c16_k5_utf8_len3() {
    utf8(3)
}

/// constructors from str / String / Cow inherit validity and content; comparisons delegate to str
fn str_ctors() {
    let which: u8 = nd::<u8>() % 4;
    let src: &str = if nd() { "a\u{e9}" } else { "" };
    let ss: SharedString = match which {
        0 => SharedString::from(src),
        1 => SharedString::from(String::from(src)),
        2 => SharedString::from(Cow::Borrowed(src)),
        _ => SharedString::from(Cow::<str>::Owned(String::from(src))),
    };
    assert!(&*ss == src && ss.as_str() == src && ss == *src && ss == src, "C16 a SharedString equals the str it was built from");
    let other: SharedString = "b".into();
    assert!((ss == other) == (src == "b") && ss.cmp(&other) == src.cmp("b") && ss.partial_cmp("b") == Some(src.cmp("b")), "C16 SharedString compares and orders like str");
    let r: &[u8] = ss.as_ref();
    assert!(r.len() == src.len());
}
#[cfg_attr(kani, kani::proof)]
#[cfg_attr(kani, kani::unwind(8))]
pub(crate) fn c16_k5_str_ctors() {
    str_ctors()
}
