//! Contract stub of std::collections::{HashMap, HashSet} (assumed contract: a finite map / set, provided the
//! key's Borrow/Eq are coherent — that proviso is obligation C01.K5). Dense prefix of a fixed array of
//! `MaybeUninit` slots + explicit length: no heap growth, no hashing, no `Option` discriminants (a niche check on
//! `Option<(OwnedKey, CacheEntry)>` made every slot write cost CBMC ~10 s because it could not rule out the drop of
//! the old `Box<dyn Any>`). Look-ups go through `Borrow<Q>` + `Eq` only.
#![allow(dead_code)]
use std::borrow::Borrow;
use std::marker::PhantomData;
use std::mem::MaybeUninit;
/// capacity of every stub map / set. The engine rewrites this line per Kani group (`map_cap` of the obligations):
/// the dependency-graph code is only within CBMC's reach with 2-3 slots (its nodes hold two sets each).
pub const CAP: usize = 4;

pub struct HashMap<K, V, S = ()> {
    slots: [MaybeUninit<(K, V)>; CAP],
    len: usize,
    _s: PhantomData<S>,
}

impl<K, V, S> HashMap<K, V, S> {
    pub fn with_hasher(_s: S) -> Self {
        HashMap { slots: [const { MaybeUninit::uninit() }; CAP], len: 0, _s: PhantomData }
    }
    pub fn with_capacity_and_hasher(_c: usize, s: S) -> Self {
        Self::with_hasher(s)
    }
    pub fn len(&self) -> usize {
        self.len
    }
    pub fn is_empty(&self) -> bool {
        self.len == 0
    }
    pub fn clear(&mut self) {
        while self.len > 0 {
            self.len -= 1;
            unsafe { self.slots[self.len].assume_init_drop() };
        }
    }
    pub fn iter(&self) -> Iter<'_, K, V> {
        Iter { m: &self.slots, i: 0, n: self.len }
    }
    fn at(&self, i: usize) -> &(K, V) {
        unsafe { self.slots[i].assume_init_ref() }
    }
    fn at_mut(&mut self, i: usize) -> &mut (K, V) {
        unsafe { self.slots[i].assume_init_mut() }
    }
    fn push(&mut self, k: K, v: V) -> usize {
        assert!(self.len < CAP, "VMap capacity bound exceeded");
        let i = self.len;
        self.slots[i].write((k, v));
        self.len += 1;
        i
    }
    fn take_at(&mut self, i: usize) -> (K, V) {
        self.len -= 1;
        let last = self.len;
        unsafe {
            let out = self.slots[i].assume_init_read();
            if i != last {
                let moved = self.slots[last].assume_init_read();
                self.slots[i].write(moved);
            }
            out
        }
    }
}
impl<K, V, S> HashMap<K, V, S> {
    pub fn keys(&self) -> impl Iterator<Item = &K> {
        self.iter().map(|p| p.0)
    }
    pub fn values(&self) -> impl Iterator<Item = &V> {
        self.iter().map(|p| p.1)
    }
    pub fn values_mut(&mut self) -> impl Iterator<Item = &mut V> {
        let n = self.len;
        self.slots[..n].iter_mut().map(|s| unsafe { &mut s.assume_init_mut().1 })
    }
    pub fn iter_mut(&mut self) -> impl Iterator<Item = (&K, &mut V)> {
        let n = self.len;
        self.slots[..n].iter_mut().map(|s| {
            let p = unsafe { s.assume_init_mut() };
            (&p.0, &mut p.1)
        })
    }
    /// removes and yields every entry
    pub fn drain(&mut self) -> std::vec::IntoIter<(K, V)> {
        let mut out = Vec::new();
        while self.len > 0 {
            self.len -= 1;
            out.push(unsafe { self.slots[self.len].assume_init_read() });
        }
        out.into_iter()
    }
    pub fn retain(&mut self, mut f: impl FnMut(&K, &mut V) -> bool) {
        let mut i = 0;
        while i < self.len {
            let keep = {
                let p = self.at_mut(i);
                f(&p.0, &mut p.1)
            };
            if keep {
                i += 1;
            } else {
                drop(self.take_at(i));
            }
        }
    }
    pub fn capacity(&self) -> usize {
        CAP
    }
    pub fn reserve(&mut self, _n: usize) {}
    pub fn shrink_to_fit(&mut self) {}
}
impl<K, V, S> Drop for HashMap<K, V, S> {
    fn drop(&mut self) {
        self.clear();
    }
}
pub struct Iter<'a, K, V> {
    m: &'a [MaybeUninit<(K, V)>; CAP],
    i: usize,
    n: usize,
}
impl<'a, K, V> Iterator for Iter<'a, K, V> {
    type Item = (&'a K, &'a V);
    fn next(&mut self) -> Option<Self::Item> {
        if self.i < self.n {
            let p = unsafe { self.m[self.i].assume_init_ref() };
            self.i += 1;
            Some((&p.0, &p.1))
        } else {
            None
        }
    }
}
impl<K, V> HashMap<K, V, ()> {
    pub fn new() -> Self {
        Self::with_hasher(())
    }
}

impl<K: Eq, V, S> HashMap<K, V, S> {
    fn pos<Q: ?Sized + Eq>(&self, k: &Q) -> Option<usize>
    where
        K: Borrow<Q>,
    {
        let mut i = 0;
        while i < self.len {
            if self.at(i).0.borrow() == k {
                return Some(i);
            }
            i += 1;
        }
        None
    }
    pub fn get<Q: ?Sized + Eq>(&self, k: &Q) -> Option<&V>
    where
        K: Borrow<Q>,
    {
        let i = self.pos(k)?;
        Some(&self.at(i).1)
    }
    pub fn get_mut<Q: ?Sized + Eq>(&mut self, k: &Q) -> Option<&mut V>
    where
        K: Borrow<Q>,
    {
        let i = self.pos(k)?;
        Some(&mut self.at_mut(i).1)
    }
    pub fn contains_key<Q: ?Sized + Eq>(&self, k: &Q) -> bool
    where
        K: Borrow<Q>,
    {
        self.pos(k).is_some()
    }
    pub fn remove<Q: ?Sized + Eq>(&mut self, k: &Q) -> Option<V>
    where
        K: Borrow<Q>,
    {
        let i = self.pos(k)?;
        Some(self.take_at(i).1)
    }
    pub fn insert(&mut self, k: K, v: V) -> Option<V> {
        match self.pos(&k) {
            Some(i) => Some(std::mem::replace(&mut self.at_mut(i).1, v)),
            None => {
                self.push(k, v);
                None
            }
        }
    }
    pub fn entry(&mut self, k: K) -> Entry<'_, K, V, S> {
        match self.pos(&k) {
            Some(i) => Entry::Occupied(OccupiedEntry { map: self, i, _key: k }),
            None => Entry::Vacant(VacantEntry { map: self, key: k }),
        }
    }
}
pub enum Entry<'a, K, V, S = ()> {
    Occupied(OccupiedEntry<'a, K, V, S>),
    Vacant(VacantEntry<'a, K, V, S>),
}
pub struct OccupiedEntry<'a, K, V, S> {
    map: &'a mut HashMap<K, V, S>,
    i: usize,
    _key: K,
}
pub struct VacantEntry<'a, K, V, S> {
    map: &'a mut HashMap<K, V, S>,
    key: K,
}
impl<'a, K, V, S> OccupiedEntry<'a, K, V, S> {
    pub fn into_mut(self) -> &'a mut V {
        &mut self.map.at_mut(self.i).1
    }
    pub fn get(&self) -> &V {
        &self.map.at(self.i).1
    }
    pub fn get_mut(&mut self) -> &mut V {
        &mut self.map.at_mut(self.i).1
    }
    pub fn key(&self) -> &K {
        &self.map.at(self.i).0
    }
    /// replaces the value, returning the old one
    pub fn insert(&mut self, v: V) -> V {
        std::mem::replace(&mut self.map.at_mut(self.i).1, v)
    }
    pub fn remove(self) -> V {
        self.map.take_at(self.i).1
    }
    pub fn remove_entry(self) -> (K, V) {
        self.map.take_at(self.i)
    }
}
impl<'a, K, V, S> VacantEntry<'a, K, V, S> {
    pub fn key(&self) -> &K {
        &self.key
    }
    pub fn into_key(self) -> K {
        self.key
    }
    pub fn insert(self, v: V) -> &'a mut V {
        let i = self.map.push(self.key, v);
        &mut self.map.at_mut(i).1
    }
}
impl<'a, K, V, S> Entry<'a, K, V, S> {
    pub fn or_insert(self, v: V) -> &'a mut V {
        match self {
            Entry::Occupied(o) => o.into_mut(),
            Entry::Vacant(e) => e.insert(v),
        }
    }
    pub fn or_default(self) -> &'a mut V
    where
        V: Default,
    {
        match self {
            Entry::Occupied(o) => o.into_mut(),
            Entry::Vacant(e) => e.insert(V::default()),
        }
    }
    pub fn or_insert_with(self, f: impl FnOnce() -> V) -> &'a mut V {
        match self {
            Entry::Occupied(o) => o.into_mut(),
            Entry::Vacant(e) => e.insert(f()),
        }
    }
    pub fn and_modify(mut self, f: impl FnOnce(&mut V)) -> Self {
        if let Entry::Occupied(o) = &mut self {
            f(o.get_mut());
        }
        self
    }
}
impl<K, V, S> std::fmt::Debug for HashMap<K, V, S> {
    fn fmt(&self, f: &mut std::fmt::Formatter<'_>) -> std::fmt::Result {
        f.write_str("VMap")
    }
}
impl<'a, K, V, S> IntoIterator for &'a HashMap<K, V, S> {
    type Item = (&'a K, &'a V);
    type IntoIter = Iter<'a, K, V>;
    fn into_iter(self) -> Iter<'a, K, V> {
        self.iter()
    }
}

pub struct HashSet<T, S = ()> {
    slots: [MaybeUninit<T>; CAP],
    len: usize,
    _s: PhantomData<S>,
}
pub struct SetIter<'a, T> {
    m: &'a [MaybeUninit<T>; CAP],
    i: usize,
    n: usize,
}
impl<'a, T> Iterator for SetIter<'a, T> {
    type Item = &'a T;
    fn next(&mut self) -> Option<&'a T> {
        if self.i < self.n {
            let r = unsafe { self.m[self.i].assume_init_ref() };
            self.i += 1;
            Some(r)
        } else {
            None
        }
    }
}
impl<T, S> HashSet<T, S> {
    pub fn with_hasher(_s: S) -> Self {
        HashSet { slots: [const { MaybeUninit::uninit() }; CAP], len: 0, _s: PhantomData }
    }
    pub fn len(&self) -> usize {
        self.len
    }
    pub fn is_empty(&self) -> bool {
        self.len == 0
    }
    pub fn clear(&mut self) {
        while self.len > 0 {
            self.len -= 1;
            unsafe { self.slots[self.len].assume_init_drop() };
        }
    }
    pub fn iter(&self) -> SetIter<'_, T> {
        SetIter { m: &self.slots, i: 0, n: self.len }
    }
}
impl<T, S> HashSet<T, S> {
    /// removes and yields every element
    pub fn drain(&mut self) -> std::vec::IntoIter<T> {
        let mut out = Vec::new();
        while self.len > 0 {
            self.len -= 1;
            out.push(unsafe { self.slots[self.len].assume_init_read() });
        }
        out.into_iter()
    }
    pub fn capacity(&self) -> usize {
        CAP
    }
    pub fn reserve(&mut self, _n: usize) {}
}
impl<'a, T, S> IntoIterator for &'a HashSet<T, S> {
    type Item = &'a T;
    type IntoIter = SetIter<'a, T>;
    fn into_iter(self) -> SetIter<'a, T> {
        self.iter()
    }
}
impl<T, S> Drop for HashSet<T, S> {
    fn drop(&mut self) {
        self.clear();
    }
}
impl<T: Eq, S> HashSet<T, S> {
    fn pos<Q: ?Sized + Eq>(&self, k: &Q) -> Option<usize>
    where
        T: Borrow<Q>,
    {
        let mut i = 0;
        while i < self.len {
            if unsafe { self.slots[i].assume_init_ref() }.borrow() == k {
                return Some(i);
            }
            i += 1;
        }
        None
    }
    pub fn contains<Q: ?Sized + Eq>(&self, k: &Q) -> bool
    where
        T: Borrow<Q>,
    {
        self.pos(k).is_some()
    }
    pub fn insert(&mut self, t: T) -> bool {
        if self.pos(&t).is_some() {
            false
        } else {
            assert!(self.len < CAP, "VSet capacity bound exceeded");
            self.slots[self.len].write(t);
            self.len += 1;
            true
        }
    }
    pub fn remove<Q: ?Sized + Eq>(&mut self, k: &Q) -> bool
    where
        T: Borrow<Q>,
    {
        match self.pos(k) {
            Some(i) => {
                self.len -= 1;
                let last = self.len;
                unsafe {
                    self.slots[i].assume_init_drop();
                    if i != last {
                        let moved = self.slots[last].assume_init_read();
                        self.slots[i].write(moved);
                    }
                }
                true
            }
            None => false,
        }
    }
    pub fn get<Q: ?Sized + Eq>(&self, k: &Q) -> Option<&T>
    where
        T: Borrow<Q>,
    {
        let i = self.pos(k)?;
        Some(unsafe { self.slots[i].assume_init_ref() })
    }
    pub fn take<Q: ?Sized + Eq>(&mut self, k: &Q) -> Option<T>
    where
        T: Borrow<Q>,
    {
        let i = self.pos(k)?;
        self.len -= 1;
        let last = self.len;
        unsafe {
            let out = self.slots[i].assume_init_read();
            if i != last {
                let moved = self.slots[last].assume_init_read();
                self.slots[i].write(moved);
            }
            Some(out)
        }
    }
    pub fn retain(&mut self, mut f: impl FnMut(&T) -> bool) {
        let mut i = 0;
        while i < self.len {
            if f(unsafe { self.slots[i].assume_init_ref() }) {
                i += 1;
            } else {
                self.len -= 1;
                let last = self.len;
                unsafe {
                    self.slots[i].assume_init_drop();
                    if i != last {
                        let moved = self.slots[last].assume_init_read();
                        self.slots[i].write(moved);
                    }
                }
            }
        }
    }
    pub fn extend(&mut self, it: impl IntoIterator<Item = T>) {
        for t in it {
            self.insert(t);
        }
    }
    pub fn difference<'a>(&'a self, other: &'a HashSet<T, S>) -> Diff<'a, T, S> {
        Diff { it: self.iter(), other }
    }
}
pub struct Diff<'a, T, S> {
    it: SetIter<'a, T>,
    other: &'a HashSet<T, S>,
}
impl<'a, T: Eq, S> Iterator for Diff<'a, T, S> {
    type Item = &'a T;
    fn next(&mut self) -> Option<&'a T> {
        loop {
            match self.it.next() {
                Some(t) => {
                    if !self.other.contains(t) {
                        return Some(t);
                    }
                }
                None => return None,
            }
        }
    }
}
impl<T, S> std::fmt::Debug for HashSet<T, S> {
    fn fmt(&self, f: &mut std::fmt::Formatter<'_>) -> std::fmt::Result {
        f.write_str("VSet")
    }
}

impl<K: Eq, V, S: Default> std::iter::FromIterator<(K, V)> for HashMap<K, V, S> {
    fn from_iter<I: IntoIterator<Item = (K, V)>>(it: I) -> Self {
        let mut m = HashMap::with_hasher(S::default());
        for (k, v) in it {
            m.insert(k, v);
        }
        m
    }
}
impl<K: Clone, V: Clone, S> Clone for HashMap<K, V, S> {
    fn clone(&self) -> Self {
        let mut m = HashMap { slots: [const { MaybeUninit::uninit() }; CAP], len: 0, _s: PhantomData };
        let mut i = 0;
        while i < self.len {
            let p = self.at(i);
            m.slots[i].write((p.0.clone(), p.1.clone()));
            m.len += 1;
            i += 1;
        }
        m
    }
}
impl<K: Eq, V, S: Default> Default for HashMap<K, V, S> {
    fn default() -> Self {
        HashMap::with_hasher(S::default())
    }
}
