//! Contract stub of once_cell::sync::OnceCell<T> (sequential): `get_or_try_init` runs the closure iff the cell is
//! empty and stores the value only on Ok; `get` never runs anything.
#![allow(dead_code)]
use std::cell::UnsafeCell;
pub struct OnceCell<T> {
    v: UnsafeCell<Option<T>>,
}
unsafe impl<T: Send + Sync> Sync for OnceCell<T> {}
impl<T> OnceCell<T> {
    pub const fn new() -> Self {
        OnceCell { v: UnsafeCell::new(None) }
    }
    pub const fn with_value(t: T) -> Self {
        OnceCell { v: UnsafeCell::new(Some(t)) }
    }
    pub fn get(&self) -> Option<&T> {
        unsafe { (*self.v.get()).as_ref() }
    }
    pub fn get_mut(&mut self) -> Option<&mut T> {
        self.v.get_mut().as_mut()
    }
    /// infallible variant: the cell is complete as soon as the closure returns
    pub fn get_or_init(&self, f: impl FnOnce() -> T) -> &T {
        match self.get_or_try_init(|| Ok::<T, std::convert::Infallible>(f())) {
            Ok(v) => v,
            Err(never) => match never {},
        }
    }
    pub fn set(&self, t: T) -> Result<(), T> {
        if self.get().is_some() {
            return Err(t);
        }
        unsafe { *self.v.get() = Some(t) };
        Ok(())
    }
    pub fn take(&mut self) -> Option<T> {
        self.v.get_mut().take()
    }
    pub fn into_inner(self) -> Option<T> {
        self.v.into_inner()
    }
    pub fn get_or_try_init<E>(&self, f: impl FnOnce() -> Result<T, E>) -> Result<&T, E> {
        if let Some(v) = self.get() {
            return Ok(v);
        }
        let val = f()?;
        unsafe {
            let slot = &mut *self.v.get();
            assert!(slot.is_none(), "reentrant init");
            *slot = Some(val);
        }
        match self.get() {
            Some(v) => Ok(v),
            None => unreachable!(),
        }
    }
}
