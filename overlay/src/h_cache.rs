//! Harnesses hosted in `crate::cache`: the real sharded AssetMap and AssetCache over the map / lock / hasher
//! contract stubs. Overlay only.
#![allow(dead_code, unused_imports, unused_variables)]
use super::*;
use crate::amv::common::*;
use crate::amv::{cover, nd};
use crate::anycache::AssetMap as AssetMapT;
use std::any::Any;

macro_rules! instances {
    ($( $name:ident => $body:expr; )*) => { $(
        #[cfg_attr(kani, kani::proof)]
        #[cfg_attr(amv_replay, test)]
        #[cfg_attr(kani, kani::unwind(10))]
        #[cfg_attr(kani, kani::stub(crate::error::ErrorKind::or, crate::amv::common::or_contract))]
        #[cfg_attr(kani, kani::stub(std::thread::available_parallelism, crate::amv::common::par1))]
        pub(crate) fn $name() { $body }
    )* };
}

crate::amv::common::real_map_scenarios!();

instances! {
    c01_s_fww_min => s_fww_min();
    c01_s_first_writer_wins => m_first_writer_wins();
    c01_s_two_present => s_two_present();
    c01_s_take => s_take();
    c01_s_other_type => s_other_type();
    c01_s_clear => s_clear();
}

/// C01.K4: number of shards is a power of two and the shard index is in range and identical for get_shard /
/// get_shard_mut, for every hash seed (symbolic) and key
fn shard_index() {
    let mut m = AssetMap::new();
    let n = m.shards.len();
    assert!(n >= 1 && (n & (n - 1)) == 0, "C01 the number of shards is a power of two");
    let t = if nd::<bool>() { tid(0) } else { tid(1) };
    let id = if nd::<bool>() { "a" } else { "b" };
    let key = BorrowedKey::new_with(id, t);
    let p1 = m.get_shard(key) as *const Shard;
    let p2 = m.get_shard_mut(key) as *mut Shard as *const Shard;
    assert!(p1 == p2, "C01/C02 shared and exclusive access pick the same shard for a key");
    let base = &m.shards[0] as *const Shard;
    let mut found = false;
    let mut i = 0;
    while i < n {
        if &m.shards[i] as *const Shard == p1 {
            found = true;
        }
        i += 1;
    }
    assert!(found, "C01 the shard index is in range");
    std::mem::forget(m);
}
instances! {
    c01_k4_shard_index => shard_index();
}
pub(crate) fn new_map() -> AssetMap {
    AssetMap::new()
}

// ---- the real AssetCache front-end end-to-end (bounded scenario, thorough tier) -------------------------------------------
fn s_cache_scenario() {
    let mut c = AssetCache::without_hot_reloading(Mem::new(O::Good, O::Good, nd(), nd()));
    let v: u8 = nd();
    let p1 = c.get_or_insert::<A>("a", A(v)) as *const Handle<A>;
    let h2 = c.as_any_cache().get_or_insert::<A>("a", A(v.wrapping_add(1)));
    assert!(h2 as *const Handle<A> == p1 && h2.read().0 == v, "C01/C02 AssetCache and its AnyCache view yield the same handle; get_or_insert never overwrites");
    assert!(c.contains::<A>("a") && !c.contains::<B>("a") && !c.contains::<A>("b"), "C02 contains is per (id,type)");
    assert!(!c.as_any_cache().is_hot_reloaded(), "C10 without_hot_reloading builds a cache without reloader");
    match c.take::<A>("a") { Some(a) => assert!(a.0 == v, "C02 take hands back the stored value"), None => assert!(false, "C02 take of a cached key") }
    assert!(!c.contains::<A>("a") && !c.remove::<A>("a"), "C02 take removed exactly what it named");
    std::mem::forget(c);
}
instances! {
    c02_s_cache_scenario => s_cache_scenario();
}

// ---- AssetCache's own hot-reloading entry points (feature hot-reloading) -------------------------------------------------------
#[cfg(all(kani, feature = "hot-reloading"))]
mod hot {
    use super::*;
    use crate::hot_reloading::amv_h::{add_asset_rec, clear_rec, ev_send_rec, make_reloader, reload_rec, send_static_rec, NCLEAR, NRELOAD, NSTATIC};
    use crate::hot_reloading::{EventSender, HotReloader};

    #[kani::proof]
    #[kani::unwind(10)]
    #[kani::stub(crate::error::ErrorKind::or, crate::amv::common::or_contract)]
    #[kani::stub(HotReloader::add_asset, add_asset_rec)]
    #[kani::stub(HotReloader::clear, clear_rec)]
    #[kani::stub(HotReloader::reload, reload_rec)]
    #[kani::stub(HotReloader::send_static, send_static_rec)]
    #[kani::stub(EventSender::send, ev_send_rec)]
    #[kani::stub(std::thread::available_parallelism, crate::amv::common::par1)]
    pub(crate) fn c05_k10_cache_entry_points() {
        let with: bool = nd();
        let mut c = AssetCache { reloader: if with { Some(make_reloader()) } else { None }, assets: AssetMap::new(), source: crate::source::Empty };
        assert!(c.as_any_cache().is_hot_reloaded() == with, "C10 a cache is hot-reloaded iff it has a reloader");
        c.hot_reload();
        unsafe { assert!(NRELOAD == with as usize, "C07 hot_reload asks the reloader (if any) to reload this cache's map; without reloader it is a no-op") };
        c.clear();
        unsafe { assert!(NCLEAR == with as usize, "C10 clear tells the reloader (if any)") };
        let cs: &'static AssetCache<crate::source::Empty> = Box::leak(Box::new(c));
        cs.enhance_hot_reloading();
        unsafe { assert!(NSTATIC == with as usize, "C05 enhance_hot_reloading hands the static reference over (if there is a reloader)") };
    }
}
