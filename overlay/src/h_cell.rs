//! Harnesses hosted in `crate::utils::cell`: OnceInitCell (feature `utils`; once_cell replaced by its contract stub).
#![allow(dead_code, unused_imports, unused_variables, static_mut_refs)]
use super::*;
use crate::amv::{cover, nd};

static mut SEED_DROPS: u8 = 0;
static mut VAL_DROPS: u8 = 0;
static mut INIT_DONE_AT_SEED_DROP: bool = false;
struct Sd(u8);
impl Drop for Sd {
    fn drop(&mut self) {
        unsafe { SEED_DROPS += 1 }
    }
}
struct Vl(u8);
impl Drop for Vl {
    fn drop(&mut self) {
        unsafe { VAL_DROPS += 1 }
    }
}
trait Seed {
    fn mk(b: u8) -> Self;
    fn b(&self) -> u8;
    fn set(&mut self, b: u8);
    const DROPS: bool;
}
impl Seed for Sd {
    fn mk(b: u8) -> Self {
        Sd(b)
    }
    fn b(&self) -> u8 {
        self.0
    }
    fn set(&mut self, b: u8) {
        self.0 = b;
    }
    const DROPS: bool = true;
}
impl Seed for u8 {
    fn mk(b: u8) -> Self {
        b
    }
    fn b(&self) -> u8 {
        *self
    }
    fn set(&mut self, b: u8) {
        *self = b;
    }
    const DROPS: bool = false;
}
fn seed_drops() -> u8 {
    unsafe { SEED_DROPS }
}
fn val_drops() -> u8 {
    unsafe { VAL_DROPS }
}

/// C17.K1 — state machine over every sequence of three failing / succeeding initialisers, both code paths
fn cell_steps<U: Seed>() {
    assert!(std::mem::needs_drop::<U>() == U::DROPS);
    let s: u8 = nd();
    let c = OnceInitCell::<U, Vl>::new(U::mk(s));
    let mut initialised = false;
    let mut calls = 0u8;
    let mut value = 0u8;
    let mut first_ref: *const Vl = std::ptr::null();
    let mut seed_now = s; // every initialiser changes the seed it is given; the cell must keep those changes
    let mut k = 0;
    while k < 3 {
        assert!(c.get().is_some() == initialised, "C17 get reflects the state and never runs anything");
        let ok: bool = nd();
        let v: u8 = nd();
        let before = calls;
        let r: Result<&Vl, u8> = c.get_or_try_init(|u| {
            calls += 1;
            assert!(u.b() == seed_now, "C17 a failed initialiser leaves the cell still owning its seed (as that initialiser left it)");
            seed_now = seed_now.wrapping_add(1);
            u.set(seed_now);
            if ok { Ok(Vl(v)) } else { Err(v) }
        });
        if initialised {
            assert!(calls == before, "C17 once initialised, no initialiser runs again");
            match r {
                Ok(x) => assert!(x as *const Vl == first_ref && x.0 == value, "C17 everybody gets the same reference"),
                Err(_) => assert!(false, "C17 an initialised cell always answers Ok"),
            }
        } else {
            assert!(calls == before + 1, "C17 on an uninitialised cell the initialiser runs exactly once per attempt");
            match r {
                Ok(x) => {
                    assert!(ok && x.0 == v, "C17 the successful initialiser's value is stored");
                    initialised = true;
                    value = v;
                    first_ref = x as *const Vl;
                    assert!(seed_drops() == if U::DROPS { 1 } else { 0 }, "C17 the seed is dropped exactly once, when the value replaces it");
                }
                Err(e) => {
                    assert!(!ok && e == v, "C17 the initialiser's error is returned");
                    assert!(seed_drops() == 0 && c.get().is_none(), "C17 an initialiser that fails leaves the cell uninitialised and still owning its seed");
                }
            }
        }
        assert!(val_drops() == 0, "C17 the value lives as long as the cell");
        k += 1;
    }
    drop(c);
    if initialised {
        assert!(val_drops() == 1 && seed_drops() == if U::DROPS { 1 } else { 0 }, "C17 exactly one of seed and value exists at any time; each is dropped exactly once");
    } else {
        assert!(val_drops() == 0 && seed_drops() == if U::DROPS { 1 } else { 0 }, "C17 an uninitialised cell drops its seed exactly once");
    }
}
#[cfg_attr(kani, kani::proof)]
#[cfg_attr(kani, kani::unwind(5))]
pub(crate) fn c17_k1_steps_drop_seed() {
    cell_steps::<Sd>()
}
#[cfg_attr(kani, kani::proof)]
#[cfg_attr(kani, kani::unwind(5))]
pub(crate) fn c17_k1_steps_plain_seed() {
    cell_steps::<u8>()
}

/// C17.K2 — with_value / get_or_init / Default
fn cell_misc() {
    let v: u8 = nd();
    let c = OnceInitCell::<Sd, Vl>::with_value(Vl(v));
    match c.get() {
        Some(x) => assert!(x.0 == v),
        None => assert!(false, "C17 with_value yields an initialised cell"),
    }
    let mut ran = false;
    let x = c.get_or_init(|_| {
        ran = true;
        Vl(0)
    });
    assert!(!ran && x.0 == v, "C17 an initialised cell never runs an initialiser");
    drop(c);
    assert!(val_drops() == 1 && seed_drops() == 0, "C17 drop picks the live arm");
    let d = OnceInitCell::<u8, Vl>::default();
    let w: u8 = nd();
    let y = d.get_or_init(|u| Vl(*u + w / 2));
    assert!(y.0 == w / 2, "C17 get_or_init initialises from the seed");
}
#[cfg_attr(kani, kani::proof)]
#[cfg_attr(kani, kani::unwind(5))]
pub(crate) fn c17_k2_misc() {
    cell_misc()
}

// ---- C10.K7 — wrapper types inherit the opt-out of what they wrap ---------------------------------------------------------------
#[cfg(feature = "hot-reloading")]
mod wrappers {
    use crate::amv::common::{A, S};
    use crate::key::Type;
    use crate::{Compound, OnceInitCell, Storable};
    use std::sync::Arc;

    #[kani::proof]
    pub(crate) fn c10_k7_wrappers_inherit_opt_out() {
        // S opted out of hot-reloading, A did not
        assert!(!<S as Compound>::HOT_RELOADED && <A as Compound>::HOT_RELOADED);
        assert!(!<Arc<S> as Compound>::HOT_RELOADED && <Arc<A> as Compound>::HOT_RELOADED, "C10 Arc<T> is reloadable iff T is");
        assert!(!<OnceInitCell<S, u8> as Compound>::HOT_RELOADED && <OnceInitCell<A, u8> as Compound>::HOT_RELOADED, "C10 OnceInitCell<U, T> is reloadable iff U is");
        assert!(!<OnceInitCell<Option<S>, u8> as Compound>::HOT_RELOADED && <OnceInitCell<Option<A>, u8> as Compound>::HOT_RELOADED, "C10 OnceInitCell<Option<U>, T> is reloadable iff U is");
        // the constant that decides static/dynamic storage and registration follows
        assert!(!<Arc<S> as Storable>::HOT_RELOADED && !<OnceInitCell<Option<S>, u8> as Storable>::HOT_RELOADED && !<OnceInitCell<S, u8> as Storable>::HOT_RELOADED, "C10 a wrapper of an opted-out type is stored static");
        assert!(!Type::of::<Arc<S>>().is_hot_reloaded() && !Type::of::<OnceInitCell<Option<S>, u8>>().is_hot_reloaded() && !Type::of::<OnceInitCell<S, u8>>().is_hot_reloaded() && !Type::of::<S>().is_hot_reloaded(), "C10 a wrapper of an opted-out type never registers with the reloader");
        assert!(Type::of::<A>().is_hot_reloaded() && Type::of::<Arc<A>>().is_hot_reloaded());
        assert!(!Type::of::<crate::amv::common::P>().is_hot_reloaded(), "C10 a Storable-only type is never hot-reloaded");
        assert!(<crate::Directory<S> as Compound>::HOT_RELOADED && <crate::RecursiveDirectory<S> as Compound>::HOT_RELOADED, "directory listings are reloadable whatever their element type");
    }
}

// ---- C17.K3 — Compound for OnceInitCell loads the seed asset exactly once and starts uninitialised ----------------------------------
mod compound {
    use crate::amv::common::{Mem, A, GC, O};
    use crate::amv::nd;
    use crate::anycache::CacheExt;
    use crate::{Compound, OnceInitCell};

    #[kani::proof]
    #[kani::unwind(10)]
    pub(crate) fn c17_k3_compound_loads_seed_once() {
        let c = GC::new(Mem::new(O::Good, O::Good, nd(), nd()));
        let id: crate::SharedString = "a".into();
        let cell = match <OnceInitCell<A, u8> as Compound>::load(c._as_any_cache(), &id) { Ok(c) => c, Err(e) => { std::mem::forget(e); panic!("seed load failed") } };
        assert!(c.src.reads.get() == 1, "C17 the seed asset is loaded exactly once");
        assert!(cell.get().is_none(), "C17 a freshly loaded cell is uninitialised");
        let v = *cell.get_or_init(|a| a.0);
        assert!(v == c.src.data[0][0] && cell.get().is_some(), "C17 the initialiser receives the loaded seed");
        let cell2 = match <OnceInitCell<Option<A>, u8> as Compound>::load(c._as_any_cache(), &id) { Ok(c) => c, Err(e) => { std::mem::forget(e); panic!("seed load failed") } };
        let v2 = *cell2.get_or_init(|a| match a.take() { Some(a) => a.0, None => 0 });
        assert!(v2 == c.src.data[0][0] && c.src.reads.get() == 2, "C17 the Option variant hands the loaded seed over as Some");
        std::mem::forget(c);
    }
}
