//! Harnesses hosted in `crate::error`. Overlay only.
#![allow(dead_code, unused_imports, unused_variables)]
use super::*;
use crate::amv::common::*;
use crate::amv::{cover, nd};

macro_rules! instances {
    ($( $name:ident => $body:expr; )*) => { $(
        #[cfg_attr(kani, kani::proof)]
        #[cfg_attr(amv_replay, test)]
        #[cfg_attr(kani, kani::unwind(6))]
        pub(crate) fn $name() { $body }
    )* };
}

/// C03.K0 — the real ErrorKind::or over every pair of precedence classes (complements C03.V1 when the function's
/// text leaves the Verus subset): the result has the maximal class.
fn or_precedence(a: u8, b: u8) {
    let r = mk_kind(a).or(mk_kind(b));
    let want = if a > b { a } else { b };
    assert!(class(&r) == want, "C03 error precedence: decoding error > I/O error > not-found > no default value");
    std::mem::forget(r);
}
instances! {
    c03_k0_or_0x => or_precedence(0, nd::<u8>() & 3);
    c03_k0_or_1x => or_precedence(1, nd::<u8>() & 3);
    c03_k0_or_2x => or_precedence(2, nd::<u8>() & 3);
    c03_k0_or_3x => or_precedence(3, nd::<u8>() & 3);
}
