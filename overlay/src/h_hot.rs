//! Harnesses hosted in `crate::hot_reloading` (mod.rs): reloader hand-off, Answers monitor, front-end with a reloader.
#![allow(dead_code, unused_imports, unused_variables)]
use super::*;
use crate::amv::common::*;
use crate::amv::{cover, nd};
use crate::anycache::{Cache, CacheExt, RawCache};
use crate::entry::CacheEntry;
use crate::hot_reloading::records::amv_h::{count, dep_asset, dep_dir, dep_file, has, recording_is_none};
use std::any::TypeId;

/// A HotReloader value without a thread (the reloader thread is never run by a verifier).
pub(crate) fn make_reloader() -> HotReloader {
    let (tx, rx) = channel::unbounded::<CacheMessage>();
    std::mem::forget(rx);
    HotReloader { sender: tx, answers: Arc::new(Answers::default()) }
}

// ---- recorder stubs for the channel-facing methods (crossbeam `send` reachable = Kani ICE) ---------------------------
pub(crate) const RCAP: usize = 3;
pub(crate) struct Reg {
    pub id0: u8,
    pub ty: u8,
    pub n: u8,
    pub file_own: bool,
    pub asset_a: bool,
    pub dir: bool,
}
pub(crate) static mut REGS: [Reg; RCAP] = [Reg { id0: 0, ty: 9, n: 0, file_own: false, asset_a: false, dir: false }, Reg { id0: 0, ty: 9, n: 0, file_own: false, asset_a: false, dir: false }, Reg { id0: 0, ty: 9, n: 0, file_own: false, asset_a: false, dir: false }];
pub(crate) static mut NREG: usize = 0;
pub(crate) static mut NCLEAR: usize = 0;
pub(crate) static mut NRELOAD: usize = 0;
pub(crate) static mut NSTATIC: usize = 0;
pub(crate) fn ty_index(t: TypeId) -> u8 {
    if tid_eq(t, tid(0)) { 0 } else if tid_eq(t, tid(1)) { 1 } else if tid_eq(t, tid(2)) { 2 } else if tid_eq(t, tid(3)) { 3 } else { 8 }
}
pub(crate) fn add_asset_rec(_this: &HotReloader, id: SharedString, deps: Dependencies, typ: Type) {
    unsafe {
        assert!(NREG < RCAP, "recorder bound");
        REGS[NREG] = Reg {
            id0: id.as_bytes()[0],
            ty: ty_index(typ.type_id),
            n: count(&deps) as u8,
            file_own: has(&deps, &dep_file(&id, "x")),
            asset_a: has(&deps, &dep_asset(&id, tid(0))),
            dir: has(&deps, &dep_dir(&id)),
        };
        NREG += 1;
    }
    std::mem::forget(deps);
}
pub(crate) fn clear_rec(_this: &HotReloader) {
    unsafe { NCLEAR += 1 }
}
pub(crate) fn reload_rec(_this: &HotReloader, _map: &crate::cache::AssetMap) {
    unsafe { NRELOAD += 1 }
}
pub(crate) fn send_static_rec(_this: &'static HotReloader, _map: &'static crate::cache::AssetMap) {
    unsafe { NSTATIC += 1 }
}
pub(crate) fn ev_send_rec(_this: &EventSender, e: OwnedDirEntry) -> Result<(), Disconnected> {
    std::mem::forget(e);
    Ok(())
}

macro_rules! instances {
    ($( $name:ident => $body:expr; )*) => { $(
        #[cfg_attr(kani, kani::proof)]
        #[cfg_attr(kani, kani::unwind(10))]
        #[cfg_attr(kani, kani::stub(crate::error::ErrorKind::or, crate::amv::common::or_contract))]
        #[cfg_attr(kani, kani::stub(HotReloader::add_asset, add_asset_rec))]
        #[cfg_attr(kani, kani::stub(HotReloader::clear, clear_rec))]
        #[cfg_attr(kani, kani::stub(HotReloader::reload, reload_rec))]
        #[cfg_attr(kani, kani::stub(HotReloader::send_static, send_static_rec))]
        #[cfg_attr(kani, kani::stub(EventSender::send, ev_send_rec))]
        pub(crate) fn $name() { $body }
    )* };
}
pub(crate) use instances as hot_instances;
/// same stubs as `instances!` but a small unwinding bound: the drop glue of `Error` is recursive through `dyn Error`
/// (an Error may box another Error) and every extra unrolling multiplies CBMC's formula
macro_rules! shallow_instances {
    ($( $name:ident => $body:expr; )*) => { $(
        #[cfg_attr(kani, kani::proof)]
        #[cfg_attr(kani, kani::unwind(3))]
        #[cfg_attr(kani, kani::stub(crate::error::ErrorKind::or, crate::amv::common::or_contract))]
        #[cfg_attr(kani, kani::stub(HotReloader::add_asset, add_asset_rec))]
        #[cfg_attr(kani, kani::stub(HotReloader::clear, clear_rec))]
        #[cfg_attr(kani, kani::stub(HotReloader::reload, reload_rec))]
        #[cfg_attr(kani, kani::stub(HotReloader::send_static, send_static_rec))]
        #[cfg_attr(kani, kani::stub(EventSender::send, ev_send_rec))]
        pub(crate) fn $name() { $body }
    )* };
}


fn gc_with_reloader(src: Mem) -> GC {
    let mut c = GC::new(src);
    c.rel = Some(make_reloader());
    c
}
fn nreg() -> usize {
    unsafe { NREG }
}
fn reg(i: usize) -> &'static Reg {
    unsafe { &REGS[i] }
}

/// C05.K7 / C14.K1 — a successful load of a reloadable asset registers (id, exactly its own reads, type) once
fn load_registers() {
    let c = gc_with_reloader(Mem::new(O::Good, O::Good, nd(), nd()));
    let h = match c._load::<A>("a") { Ok(h) => h, Err(e) => { std::mem::forget(e); panic!("load of a good file failed") } };
    assert!(h.read().0 == c.src.data[0][0]);
    assert!(nreg() == 1, "C05 a successful load registers with the reloader exactly once");
    let r = reg(0);
    assert!(r.id0 == b'a' && r.ty == 0, "C05 registration carries the key of the loaded asset");
    assert!(r.n == 1 && r.file_own, "C05/C14 the registered set is exactly what the load read: the file (id, ext)");
    assert!(recording_is_none(), "C09/C14 recording cell restored after the load");
    // a second load is a cache hit: nothing new is registered
    let _ = c._load::<A>("a");
    assert!(nreg() == 1, "C05 a cache hit registers nothing");
    // C10.K3: get_or_insert and loads of opted-out types register nothing
    let _ = c._get_or_insert::<B>("a", B(1));
    let hs = match c._load::<S>("b") { Ok(h) => h, Err(e) => { std::mem::forget(e); panic!("load of a good file failed") } };
    assert!(nreg() == 1, "C10 get_or_insert and types that opted out never register with the reloader");
    assert!(hs.get().0 == c.src.data[1][0], "C10 an opted-out type is stored static: Handle::get works");
    std::mem::forget(c);
}
/// C14.K1 — nested reloadable load: the outer asset depends on the inner ASSET, not on its files
fn nested_registers() {
    let c = gc_with_reloader(Mem::new(O::Good, O::Good, nd(), nd()));
    let h = match c._load::<Y>("a") { Ok(h) => h, Err(e) => { std::mem::forget(e); panic!("compound load failed") } };
    assert!(nreg() == 2, "C14 both the nested asset and the compound register");
    let (ra, ry) = (reg(0), reg(1));
    assert!(ra.ty == 0 && ra.n == 1 && ra.file_own && !ra.asset_a, "C14 the nested asset owns its file read");
    assert!(ry.ty == 3 && ry.n == 1 && ry.asset_a && !ry.file_own, "C14 the compound depends on the nested asset, not on the nested asset's files");
    assert!(recording_is_none(), "C09/C14 recording cell restored after nested loads");
    std::mem::forget(c);
}
/// failing loads register nothing and restore the cell
fn failed_load_registers_nothing() {
    let c = gc_with_reloader(Mem::new(any_err_o(), O::Good, nd(), nd()));
    match c._load::<Y>("a") { Ok(_) => assert!(false), Err(e) => std::mem::forget(e) }
    assert!(nreg() == 0, "C05/C09 a failed load registers nothing");
    assert!(recording_is_none(), "C09 the recording cell is restored after a failed (nested) load");
    assert!(c.map.inserts.get() == 0, "C09 nothing partially built becomes visible");
    std::mem::forget(c);
}
instances! {
    c05_k7_load_registers => load_registers();
    c14_k1_nested_registers => nested_registers();
}
instances! {
    c09_k1_failed_load_registers_nothing => failed_load_registers_nothing();
}

/// C05.K6 / C14.K5 — every read of a load is recorded at look-up time: Cache::read / read_dir, get_cached (hit and miss), load_owned
fn lookups_are_recorded() {
    let c = gc_with_reloader(Mem::new(O::Good, O::Good, nd(), nd()));
    c.map.put(kidx(1, 0), CacheEntry::new(A(nd()), "b".into(), || true), true);
    let r = match &c.rel { Some(r) => r, None => unreachable!() };
    let (_u, deps) = records::record(r, || {
        let any = c._as_any_cache();
        let _ = any.get_cached::<A>("a"); // miss
        let _ = any.get_cached::<A>("b"); // hit
        let _ = any.get_cached::<S>("a"); // opted-out type: not a dependency
        let _ = any.contains::<B>("a"); // contains is not a dependency
        let rd = Cache::read_dir(&c, "a", &mut |_e| {});
        std::mem::forget(rd);
        let rf = Cache::read(&c, "b", "x");
        std::mem::forget(rf);
    });
    // reads that FAIL are dependencies too (the file may be created later): recorded before the source is asked
    let (_u2, deps_missing) = records::record(r, || {
        let rf = Cache::read(&c, "a", "y"); // the source has no such file
        let missing = rf.is_err();
        std::mem::forget(rf);
        missing
    });
    assert!(_u2, "the harness source has no a.y");
    assert!(count(&deps_missing) == 1 && has(&deps_missing, &dep_file("a", "y")), "C05 a read of a file that does not exist is recorded too (so that creating it later triggers the reload)");
    std::mem::forget(deps_missing);
    assert!(has(&deps, &dep_asset("a", tid(0))), "C05/C14 a get_cached miss is recorded (the asset may appear later)");
    assert!(has(&deps, &dep_asset("b", tid(0))), "C05/C14 a get_cached hit is recorded");
    assert!(!has(&deps, &dep_asset("a", tid(2))), "C10 an opted-out type is never a dependency");
    assert!(has(&deps, &dep_dir("a")) && has(&deps, &dep_file("b", "x")), "C05 source reads and directory reads are recorded");
    assert!(count(&deps) == 4, "C14 nothing else is recorded");
    std::mem::forget(deps);
    std::mem::forget(c);
}
fn load_owned_is_recorded() {
    let c = gc_with_reloader(Mem::new(O::Good, O::Good, nd(), nd()));
    let r = match &c.rel { Some(r) => r, None => unreachable!() };
    let (v, deps) = records::record(r, || match c._load_owned::<A>("a") { Ok(a) => a.0, Err(e) => { std::mem::forget(e); panic!("load_owned failed") } });
    assert!(v == c.src.data[0][0]);
    assert!(count(&deps) == 1 && has(&deps, &dep_asset("a", tid(0))), "C05/C14 load_owned makes the asset a dependency of the outer load (its file belongs to the nested load)");
    assert!(nreg() == 1 && reg(0).file_own && reg(0).n == 1, "C05 load_owned registers the owned asset's own reads under its key");
    std::mem::forget(deps);
    std::mem::forget(c);
}
instances! {
    c05_k6_lookups_recorded => lookups_are_recorded();
    c05_k6_load_owned_recorded => load_owned_is_recorded();
}

// ---- C05.K3 — AnyCache::reload_untyped -----------------------------------------------------------------------------
fn reload_ok() {
    let mut src = Mem::new(O::Good, O::Good, nd(), nd());
    src.data2 = [[nd()], [nd()]];
    let c = gc_with_reloader(src);
    let h = match c._load::<A>("a") { Ok(h) => h, Err(e) => { std::mem::forget(e); panic!("load failed") } };
    let hb = c._get_or_insert::<B>("a", B(7));
    let id0 = h.last_reload_id();
    assert!(id0 == crate::ReloadId::NEVER && !h.reloaded_global(), "C06 reload id starts at NEVER");
    c.src.edited.set(true);
    let reads0 = c.src.reads.get();
    let deps = c._as_any_cache().reload_untyped("a".into(), Type::of::<A>());
    match deps {
        Some(d) => {
            assert!(count(&d) == 1 && has(&d, &dep_file("a", "x")), "C05 dependency sets are re-learned at every reload: exactly what this reload read");
            std::mem::forget(d);
        }
        None => assert!(false, "C05 a reload that can load must succeed"),
    }
    assert!(h.read().0 == c.src.data2[0][0], "C05 after a reload the cached value equals what loading afresh from the current source gives");
    assert!(h.last_reload_id() > id0 && h.reloaded_global(), "C06 a successful rewrite advances the reload id and is reported");
    assert!(c.src.reads.get() == reads0 + 1, "C06 one reload re-reads the source once");
    assert!(hb.read().0 == 7 && hb.last_reload_id() == crate::ReloadId::NEVER, "C05/C06 other assets are untouched");
    assert!(nreg() == 1, "reload_untyped itself registers nothing (the graph re-inserts the returned set)");
    assert!(recording_is_none(), "C09/C14 recording cell restored after a reload");
    std::mem::forget(c);
}
fn reload_absent() {
    let c = gc_with_reloader(Mem::new(O::Good, O::Good, nd(), nd()));
    let deps = c._as_any_cache().reload_untyped("a".into(), Type::of::<A>());
    assert!(deps.is_none() && c.src.reads.get() == 0 && c.map.inserts.get() == 0, "C06 an asset that is not cached is neither read nor created by a reload");
    std::mem::forget(c);
}
instances! {
    c05_k3_reload_ok => reload_ok();
    c05_k3_reload_absent => reload_absent();
}

// ---- C10.K5 — a value stored with get_or_insert is never rewritten, also after load / remove / re-creation --------------
/// `reload_untyped(key)` is what the reloader does for a key its graph still names (the graph has no removal:
/// remove/take do not tell the reloader and clear only empties the pending set).
fn goi_never_rewritten(history: u8) {
    let mut src = Mem::new(O::Good, O::Good, nd(), nd());
    src.data2 = [[nd()], [nd()]];
    let c = gc_with_reloader(src);
    if history >= 1 {
        // the key was loaded before (registered with the reloader) ...
        match c._load::<A>("a") { Ok(_) => {}, Err(e) => { std::mem::forget(e); panic!("load failed") } };
        // ... and removed (AssetCache::remove / take / clear delete the map entry only)
        c.map.unput(kidx(0, 0));
    }
    let v: u8 = nd();
    let h = c._get_or_insert::<A>("a", A(v));
    assert!(h.read().0 == v);
    c.src.edited.set(true);
    let deps = c._as_any_cache().reload_untyped("a".into(), Type::of::<A>());
    std::mem::forget(deps);
    assert!(h.read().0 == v, "C10 a value stored with get_or_insert is never modified by hot-reloading");
    assert!(h.last_reload_id() == crate::ReloadId::NEVER, "C10 a value stored with get_or_insert is never marked reloaded");
    std::mem::forget(c);
}
instances! {
    c10_k5_goi_fresh => goi_never_rewritten(0);
    c10_k5_goi_after_load_remove => goi_never_rewritten(1);
}

// ---- C08.K1 — monitor signalling obligation of `Answers` ---------------------------------------------------------------
// Proof rule for condition-variable monitors: a method that changes the monitor state in a way that can make another
// waiter's condition true must notify before releasing the mutex. `notify` waits for an EMPTY slot, `wait_for_answer`
// waits for a slot holding ITS token; so filling the slot and emptying it both have to signal.
#[cfg(kani)]
fn notifies() -> usize {
    unsafe { crate::amv::vsync::NOTIFY_COUNT }
}
#[cfg(kani)]
fn answers_signalling() {
    let a = Answers::default();
    let t: usize = nd();
    // reloader publishes an answer into the empty slot
    let n0 = notifies();
    a.notify(t);
    assert!(*a.current_token.lock() == Some(t), "C08 the answer slot holds the published token");
    assert!(notifies() > n0, "C08 publishing an answer wakes the waiting callers");
    // the caller whose token it is consumes it
    let n1 = notifies();
    a.wait_for_answer(t);
    assert!(a.current_token.lock().is_none(), "C08 the caller empties the slot for the next answer");
    assert!(notifies() > n1, "C08 emptying the answer slot wakes the reloader thread that waits for an empty slot");
    assert!(crate::amv::lock_counts() == (0, 0));
}
/// a caller must not take somebody else's answer: waiting for another token blocks (the lock stub's wait panics)
#[cfg(kani)]
#[kani::proof]
#[kani::should_panic]
#[kani::unwind(4)]
pub(crate) fn c08_k1_wrong_token_waits() {
    let a = Answers::default();
    let t: usize = nd();
    a.notify(t);
    a.wait_for_answer(t.wrapping_add(1));
}
/// the reloader must not overwrite an answer that was not consumed yet
#[cfg(kani)]
#[kani::proof]
#[kani::should_panic]
#[kani::unwind(4)]
pub(crate) fn c08_k1_full_slot_waits() {
    let a = Answers::default();
    a.notify(nd());
    a.notify(nd());
}
#[cfg(kani)]
instances! {
    c08_k1_answers_signalling => answers_signalling();
}

// ---- C08.K2 — unique tokens -----------------------------------------------------------------------------------------------
fn unique_tokens() {
    let a = Answers::default();
    let start: usize = nd();
    a.next_token.store(start, Ordering::Relaxed);
    let t1 = a.get_unique_token();
    let t2 = a.get_unique_token();
    let t3 = a.get_unique_token();
    assert!(t1 == start && t1 != t2 && t2 != t3 && t1 != t3, "C08 every hot_reload request gets its own token");
}
instances! {
    c08_k2_unique_tokens => unique_tokens();
}

// ---- C07.K5 / C08.K3 — HotReloader::reload sends its own token and waits for exactly that token ------------------------------
#[cfg(kani)]
static mut SENT_TOKEN: Option<usize> = None;
#[cfg(kani)]
static mut SENT_MAP: *const crate::cache::AssetMap = std::ptr::null();
#[cfg(kani)]
static mut WAITED_TOKEN: Option<usize> = None;
#[cfg(kani)]
static mut WAIT_AFTER_SEND: bool = false;
#[cfg(kani)]
static mut SEND_FAILS: bool = false;
#[cfg(kani)]
fn send_rec<T>(_this: &Sender<T>, msg: T) -> Result<(), channel::SendError<T>> {
    unsafe {
        if SEND_FAILS {
            return Err(channel::SendError(msg));
        }
        // the only channel in this harness carries CacheMessage
        assert!(std::mem::size_of::<T>() == std::mem::size_of::<CacheMessage>());
        let m: &CacheMessage = &*(&msg as *const T as *const CacheMessage);
        if let CacheMessage::Ptr(map, _rel, token) = m {
            SENT_TOKEN = Some(*token);
            SENT_MAP = map.as_ptr() as *const _;
        }
    }
    std::mem::forget(msg);
    Ok(())
}
#[cfg(kani)]
fn wait_rec(_this: &Answers, token: usize) {
    unsafe {
        WAITED_TOKEN = Some(token);
        WAIT_AFTER_SEND = SENT_TOKEN.is_some();
    }
}
#[cfg(kani)]
#[kani::proof]
#[kani::unwind(6)]
#[kani::stub(crossbeam_channel::Sender::send, send_rec)]
#[kani::stub(Answers::wait_for_answer, wait_rec)]
#[kani::stub(std::thread::available_parallelism, crate::amv::common::par1)]
pub(crate) fn c08_k3_reload_waits_for_own_token() {
    let r = make_reloader();
    let start: usize = nd();
    r.answers.next_token.store(start, Ordering::Relaxed);
    let fails: bool = nd();
    unsafe { SEND_FAILS = fails };
    let map = crate::cache::amv_h::new_map();
    r.reload(&map);
    unsafe {
        if fails {
            assert!(WAITED_TOKEN.is_none(), "C08 if the reloader thread is gone hot_reload returns without waiting");
        } else {
            assert!(SENT_TOKEN == Some(start), "C08 the request carries a fresh token");
            assert!(SENT_MAP == &map as *const _, "C07 the request names the caller's own map");
            assert!(WAITED_TOKEN == SENT_TOKEN && WAIT_AFTER_SEND, "C07/C08 hot_reload blocks until the answer to ITS OWN request arrives");
        }
    }
    std::mem::forget(map);
    std::mem::forget(r);
}

// ---- C12.K2 — EventSender::send_multiple: what is sent and what is reported -------------------------------------------------
#[cfg(kani)]
static mut EV_SENT_SINGLE: u8 = 0;
#[cfg(kani)]
static mut EV_SENT_MULTI_LEN: Option<usize> = None;
#[cfg(kani)]
static mut EV_SEND_FAILS: bool = false;
#[cfg(kani)]
fn ev_chan_send_rec<T>(_this: &Sender<T>, msg: T) -> Result<(), channel::SendError<T>> {
    unsafe {
        if EV_SEND_FAILS {
            return Err(channel::SendError(msg));
        }
        assert!(std::mem::size_of::<T>() == std::mem::size_of::<Events>());
        let m: &Events = &*(&msg as *const T as *const Events);
        match m {
            Events::Single(_) => EV_SENT_SINGLE += 1,
            Events::Multiple(v) => EV_SENT_MULTI_LEN = Some(v.len()),
        }
    }
    std::mem::forget(msg);
    Ok(())
}
/// iterator with a controllable size_hint upper bound
#[cfg(kani)]
struct It {
    left: usize,
    upper: Option<usize>,
}
#[cfg(kani)]
impl Iterator for It {
    type Item = OwnedDirEntry;
    fn next(&mut self) -> Option<OwnedDirEntry> {
        if self.left == 0 {
            None
        } else {
            self.left -= 1;
            Some(OwnedDirEntry::Directory("a".into()))
        }
    }
    fn size_hint(&self) -> (usize, Option<usize>) {
        (0, self.upper)
    }
}
#[cfg(kani)]
fn send_multiple_case(n: usize, upper: Option<usize>) {
    let (tx, rx) = channel::unbounded::<Events>();
    std::mem::forget(rx);
    let s = EventSender(tx);
    let fails: bool = nd();
    unsafe { EV_SEND_FAILS = fails };
    let r = s.send_multiple(It { left: n, upper });
    unsafe {
        let sent = EV_SENT_SINGLE as usize + match EV_SENT_MULTI_LEN { Some(l) => l, None => 0 };
        match r {
            Ok(k) => {
                assert!(k == n, "C12 send_multiple reports the number of events actually sent");
                assert!(sent == n || (n == 0 && sent == 0), "C12 every event produced is sent, once");
            }
            Err(_) => assert!(fails && sent == 0, "C12 send_multiple fails only when the receiver is gone"),
        }
    }
    std::mem::forget(s);
}
#[cfg(kani)]
macro_rules! sm_instances {
    ($( $name:ident => $body:expr; )*) => { $(
        #[kani::proof]
        #[kani::unwind(6)]
        #[kani::stub(crossbeam_channel::Sender::send, ev_chan_send_rec)]
        pub(crate) fn $name() { $body }
    )* };
}
#[cfg(kani)]
sm_instances! {
    c12_k2_send_multiple_hint0 => send_multiple_case(0, Some(0));
    c12_k2_send_multiple_hint1_empty => send_multiple_case(0, Some(1));
    c12_k2_send_multiple_hint1 => send_multiple_case(1, Some(1));
    c12_k2_send_multiple_hint2 => send_multiple_case(2, Some(2));
    c12_k2_send_multiple_hint2_short => send_multiple_case(1, Some(2));
    c12_k2_send_multiple_nohint => send_multiple_case(2, None);
    c12_k2_send_multiple_nohint_empty => send_multiple_case(0, None);
}

/// C14.K6 — a NON-reloadable asset loaded inside a compound is not registered, and what it read is attributed to the
/// compound (the only way the compound can follow those files)
fn nested_non_reloadable_reads_go_to_outer() {
    let c = gc_with_reloader(Mem::new(O::Good, O::Good, nd(), nd()));
    let r = match &c.rel { Some(r) => r, None => unreachable!() };
    // YS is not in the contract map's alphabet: run its load function under a record, as load_and_record does
    let (res, deps) = records::record(r, || <YS as crate::Compound>::load(c._as_any_cache(), &"a".into()));
    match res { Ok(y) => assert!(y.0 == c.src.data[0][0]), Err(e) => { std::mem::forget(e); assert!(false, "compound load failed") } }
    assert!(has(&deps, &dep_file("a", "x")), "C14 reads made by the nested load of a NON-reloadable asset belong to the asset being loaded");
    assert!(!has(&deps, &dep_asset("a", tid(2))), "C10/C14 a non-reloadable asset is never a dependency by itself");
    assert!(count(&deps) == 1 && nreg() == 0, "C10 a non-reloadable asset never registers with the reloader");
    std::mem::forget(deps);
    std::mem::forget(c);
}
instances! {
    c14_k6_nested_non_reloadable => nested_non_reloadable_reads_go_to_outer();
}

/// C09.K2 — a failing reload reports nothing to re-register (the graph keeps the asset's previous dependency set) and leaves the value
fn failed_reload_keeps_deps(oc: u8) {
    let c = gc_with_reloader(Mem::new(O::Good, O::Good, nd(), nd()));
    c.map.put(kidx(0, 0), CacheEntry::new(A(7), "a".into(), || true), true);
    c.src.o[0].set(match oc { 1 => O::NotFound, 2 => O::Denied, _ => O::Bad });
    let deps = c._as_any_cache().reload_untyped("a".into(), Type::of::<A>());
    assert!(deps.is_none(), "C05/C09 a failing reload leaves the asset's dependency set alone (nothing is reported to the graph)");
    match c._get_cached::<A>("a") { Some(h) => assert!(h.read().0 == 7 && h.last_reload_id() == crate::ReloadId::NEVER, "C09 a failing reload leaves value and reload id untouched"), None => assert!(false) }
    assert!(recording_is_none(), "C09 recording cell restored after a failed reload");
    std::mem::forget(c);
}
shallow_instances! {
    c09_k2_failed_reload_nf => failed_reload_keeps_deps(1);
    c09_k2_failed_reload_bad => failed_reload_keeps_deps(3);
}

/// C06.K4 — the reload id grows "never otherwise": no operation other than a successful rewrite touches it
fn only_write_touches_counter() {
    let c = gc_with_reloader(Mem::new(O::Good, O::Good, nd(), nd()));
    let h = match c._load::<A>("a") { Ok(h) => h, Err(e) => { std::mem::forget(e); panic!("load failed") } };
    let mut w = h.reload_watcher();
    let _ = c._load::<A>("a");
    let _ = c._get_cached::<A>("a");
    let _ = c._get_or_insert::<A>("a", A(9));
    let _ = c._contains::<A>("a");
    let _ = c._load_owned::<A>("a");
    let _ = c._load::<A>("b");
    {
        let g = h.read();
        let _ = g.0;
    }
    assert!(h.last_reload_id() == crate::ReloadId::NEVER, "C06 the reload id never grows without a rewrite (loads, look-ups, reads, other assets)");
    assert!(!w.reloaded() && !h.reloaded_global(), "C06 nothing is reported when nothing was rewritten");
    std::mem::forget(c);
}
instances! {
    c06_k4_only_write_touches_counter => only_write_touches_counter();
}

// ---- C05.K8b — the HotReloader methods send the right message ---------------------------------------------------------------
#[cfg(kani)]
static mut MSG_KIND: u8 = 0; // 1 AddAsset, 2 Clear, 3 Static, 4 Ptr
#[cfg(kani)]
static mut MSG_COUNT: u8 = 0;
#[cfg(kani)]
fn msg_send_rec<T>(_this: &Sender<T>, msg: T) -> Result<(), channel::SendError<T>> {
    unsafe {
        assert!(std::mem::size_of::<T>() == std::mem::size_of::<CacheMessage>());
        let m: &CacheMessage = &*(&msg as *const T as *const CacheMessage);
        MSG_KIND = match m {
            CacheMessage::AddAsset(_) => 1,
            CacheMessage::Clear => 2,
            CacheMessage::Static(_, _) => 3,
            CacheMessage::Ptr(_, _, _) => 4,
        };
        MSG_COUNT += 1;
    }
    std::mem::forget(msg);
    Ok(())
}
#[cfg(kani)]
#[kani::proof]
#[kani::unwind(6)]
#[kani::stub(crossbeam_channel::Sender::send, msg_send_rec)]
#[kani::stub(std::thread::available_parallelism, crate::amv::common::par1)]
pub(crate) fn c05_k8b_reloader_messages() {
    let r = make_reloader();
    r.add_asset("a".into(), Dependencies::empty(), Type::of::<A>());
    unsafe { assert!(MSG_KIND == 1 && MSG_COUNT == 1, "C05 a registration is sent to the reloader thread as one AddAsset message") };
    r.clear();
    unsafe { assert!(MSG_KIND == 2 && MSG_COUNT == 2, "C10 clear tells the reloader thread") };
    let rs: &'static HotReloader = Box::leak(Box::new(make_reloader()));
    let map: &'static crate::cache::AssetMap = Box::leak(Box::new(crate::cache::amv_h::new_map()));
    rs.send_static(map);
    unsafe { assert!(MSG_KIND == 3 && MSG_COUNT == 3, "C05 enhance_hot_reloading hands the static reference to the reloader thread") };
    std::mem::forget(r);
}
