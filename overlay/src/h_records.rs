//! Harnesses hosted in `crate::hot_reloading::records`: dependency recording. Overlay only.
#![allow(dead_code, unused_imports, unused_variables)]
use super::*;
use crate::amv::common::*;
use crate::amv::{cover, nd};
use crate::hot_reloading::amv_h::make_reloader;

macro_rules! instances {
    ($( $name:ident => $body:expr; )*) => { $(
        #[cfg_attr(kani, kani::proof)]
        #[cfg_attr(amv_replay, test)]
        #[cfg_attr(kani, kani::unwind(8))]
        pub(crate) fn $name() { $body }
    )* };
}

pub(crate) fn recording_is_none() -> bool {
    RECORDING.with(|r| r.get().is_none())
}
pub(crate) fn dep_file(id: &str, ext: &str) -> Dependency {
    Dependency::File(id.into(), ext.into())
}
pub(crate) fn dep_dir(id: &str) -> Dependency {
    Dependency::Directory(id.into())
}
pub(crate) fn dep_asset(id: &str, t: TypeId) -> Dependency {
    Dependency::Asset(OwnedKey::new_with(id.into(), t))
}
pub(crate) fn has(d: &Dependencies, x: &Dependency) -> bool {
    d.0.contains(x)
}
pub(crate) fn count(d: &Dependencies) -> usize {
    d.0.len()
}

/// C14/C09.K3 — record(): returns the closure's result and exactly what was recorded inside, restores the cell
fn rec_basic(fail: bool) {
    let r = make_reloader();
    assert!(recording_is_none());
    // records offered while nothing is being loaded are dropped
    add_file_record(&r, "z", "x");
    let (res, deps): (Result<u8, u8>, Dependencies) = record(&r, || {
        add_file_record(&r, "a", "x");
        add_dir_record(&r, "d");
        add_record(&r, "b".into(), tid(0));
        add_file_record(&r, "a", "x"); // duplicates collapse
        if fail { Err(3) } else { Ok(7) }
    });
    assert!(res == if fail { Err(3) } else { Ok(7) }, "record returns the closure's result");
    assert!(recording_is_none(), "C09/C14 the recording cell is restored after a load, successful or not");
    assert!(count(&deps) == 3, "C14 exactly the reads made during the load are recorded");
    assert!(has(&deps, &dep_file("a", "x")) && has(&deps, &dep_dir("d")) && has(&deps, &dep_asset("b", tid(0))), "C05/C14 file, directory and asset reads are all recorded");
    assert!(!has(&deps, &dep_file("z", "x")), "C14 reads made outside a load are recorded for nobody");
    std::mem::forget(deps);
    std::mem::forget(r);
}
instances! {
    c14_rec_basic_ok => rec_basic(false);
    c14_rec_basic_err => rec_basic(true);
}

/// C14 — nested record: inner reads belong to the inner load only; recording resumes for the outer one afterwards
fn rec_nested(inner_fails: bool) {
    let r = make_reloader();
    let ((inner_res, inner_deps), outer): ((Result<u8, u8>, Dependencies), Dependencies) = record(&r, || {
        add_file_record(&r, "a", "x");
        let inner = record(&r, || {
            add_file_record(&r, "b", "x");
            if inner_fails { Err(1) } else { Ok(2) }
        });
        add_file_record(&r, "c", "x");
        inner
    });
    assert!(recording_is_none(), "C09/C14 the recording cell is restored after nested loads");
    assert!(count(&inner_deps) == 1 && has(&inner_deps, &dep_file("b", "x")), "C14 reads of the nested load belong to the nested asset");
    assert!(count(&outer) == 2 && has(&outer, &dep_file("a", "x")) && has(&outer, &dep_file("c", "x")), "C14 recording resumes for the outer asset after the nested load ends (Ok or Err)");
    assert!(!has(&outer, &dep_file("b", "x")), "C14 the outer asset does not own the nested asset's files");
    std::mem::forget(inner_deps);
    std::mem::forget(outer);
    std::mem::forget(r);
}
instances! {
    c14_rec_nested_ok => rec_nested(false);
    c14_rec_nested_err => rec_nested(true);
}

/// C14 — no_record hides reads and restores recording; three levels deep
fn rec_no_record() {
    let r = make_reloader();
    let (res, deps) = record(&r, || {
        add_file_record(&r, "a", "x");
        let inner = no_record(|| {
            add_file_record(&r, "b", "x");
            add_dir_record(&r, "b");
            // a load started inside no_record records for itself
            let (_u, d3) = record(&r, || add_file_record(&r, "c", "x"));
            let ok = count(&d3) == 1 && has(&d3, &dep_file("c", "x"));
            std::mem::forget(d3);
            add_file_record(&r, "b", "x");
            ok
        });
        add_file_record(&r, "c", "x");
        inner
    });
    assert!(res, "C14 a load nested in no_record still records its own reads");
    assert!(recording_is_none(), "C09/C14 the recording cell is restored");
    assert!(count(&deps) == 2 && has(&deps, &dep_file("a", "x")) && has(&deps, &dep_file("c", "x")), "C14 reads inside no_record are not recorded and recording resumes after the block");
    std::mem::forget(deps);
    std::mem::forget(r);
}
instances! {
    c14_rec_no_record => rec_no_record();
}

/// C14 — records offered through another cache's reloader are ignored
fn rec_foreign() {
    let r1 = make_reloader();
    let r2 = make_reloader();
    let (_u, deps) = record(&r1, || {
        add_file_record(&r2, "a", "x");
        add_dir_record(&r2, "a");
        add_record(&r2, "a".into(), tid(0));
        add_file_record(&r1, "b", "x");
    });
    assert!(count(&deps) == 1 && has(&deps, &dep_file("b", "x")), "C14 reads through another cache are not recorded");
    std::mem::forget(deps);
    std::mem::forget(r1);
    std::mem::forget(r2);
}
instances! {
    c14_rec_foreign => rec_foreign();
}

/// C09.K3 — CellGuard restores the saved value on drop
fn cell_guard() {
    let (a, b): (u8, u8) = (nd(), nd());
    let c = Cell::new(a);
    {
        let _g = CellGuard::replace(&c, b);
        assert!(c.get() == b);
        {
            let _g2 = CellGuard::replace(&c, 9);
            assert!(c.get() == 9);
        }
        assert!(c.get() == b, "inner guard restores");
    }
    assert!(c.get() == a, "C09 CellGuard restores the cell on every exit path");
}
instances! {
    c09_k3_cell_guard => cell_guard();
}

/// harness-side constructor of a dependency set
pub(crate) fn deps_of(items: Vec<Dependency>) -> Dependencies {
    let mut s = HashSet::new();
    for d in items {
        s.insert(d);
    }
    Dependencies(s)
}
