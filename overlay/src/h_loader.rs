//! Harnesses hosted in `crate::loader`: the built-in loaders. Overlay only.
#![allow(dead_code, unused_imports, unused_variables)]
use super::*;
use crate::amv::{cover, nd};

macro_rules! instances {
    ($( $name:ident => $body:expr; )*) => { $(
        #[kani::proof]
        #[kani::unwind(8)]
        pub(crate) fn $name() { $body }
    )* };
}
fn content(owned: bool, data: &[u8]) -> Cow<'_, [u8]> {
    if owned { Cow::Owned(data.to_vec()) } else { Cow::Borrowed(data) }
}

/// C03.K5 — BytesLoader hands over exactly the bytes, for every target type and both Cow forms
fn bytes_loader(owned: bool) {
    let data: [u8; 3] = [nd(), nd(), nd()];
    let len = (nd::<u8>() % 4) as usize;
    let i = (nd::<u8>() % 3) as usize;
    let v: Vec<u8> = match <BytesLoader as Loader<Vec<u8>>>::load(content(owned, &data[..len]), "x") { Ok(v) => v, Err(e) => { std::mem::forget(e); panic!("BytesLoader cannot fail") } };
    let b: Box<[u8]> = match <BytesLoader as Loader<Box<[u8]>>>::load(content(owned, &data[..len]), "x") { Ok(v) => v, Err(e) => { std::mem::forget(e); panic!("BytesLoader cannot fail") } };
    let s: SharedBytes = match <BytesLoader as Loader<SharedBytes>>::load(content(owned, &data[..len]), "x") { Ok(v) => v, Err(e) => { std::mem::forget(e); panic!("BytesLoader cannot fail") } };
    assert!(v.len() == len && b.len() == len && s.len() == len, "C03 the loader's result on exactly the stored bytes (length)");
    assert!(i >= len || (v[i] == data[i] && b[i] == data[i] && s[i] == data[i]), "C03 the loader's result on exactly the stored bytes (content)");
}
/// C03.K5 — StringLoader accepts exactly valid UTF-8 and yields that string (non-UTF-8 content is a decoding error)
fn string_loader(owned: bool) {
    let data: [u8; 2] = [nd(), nd()];
    let len = (nd::<u8>() % 3) as usize;
    let want = str::from_utf8(&data[..len]);
    let r1 = <StringLoader as Loader<String>>::load(content(owned, &data[..len]), "x");
    let r3 = <StringLoader as Loader<SharedString>>::load(content(owned, &data[..len]), "x");
    assert!(r1.is_ok() == want.is_ok() && r3.is_ok() == want.is_ok(), "C03 StringLoader accepts exactly valid UTF-8 (anything else is a decoding error)");
    if let (Ok(w), Ok(s1), Ok(s3)) = (&want, &r1, &r3) {
        assert!(s1.as_str() == *w && s3.as_str() == *w, "C03 StringLoader yields exactly the stored text");
    }
    std::mem::forget(r1);
    std::mem::forget(r3);
}
/// C03.K5 — ParseLoader trims surrounding whitespace and then parses; LoadFrom applies Into
struct W(u8);
impl From<u8> for W {
    fn from(b: u8) -> Self {
        W(b)
    }
}
fn parse_loader() {
    let cases: [(&[u8], Option<u8>); 6] = [(b"7", Some(7)), (b" 7\n", Some(7)), (b"\t42 ", Some(42)), (b"", None), (b"4 2", None), (b"\xff", None)];
    let k = (nd::<u8>() % 6) as usize;
    let (bytes, want) = cases[k];
    let r = <ParseLoader as Loader<u8>>::load(Cow::Borrowed(bytes), "x");
    match (want, r) {
        (Some(w), Ok(v)) => assert!(v == w, "C03 ParseLoader parses the trimmed content"),
        (None, Err(e)) => std::mem::forget(e),
        (_, r) => { std::mem::forget(r); assert!(false, "C03 ParseLoader trims surrounding whitespace, then parses; anything else is a decoding error") }
    }
    let r2 = <LoadFrom<u8, ParseLoader> as Loader<W>>::load(Cow::Borrowed(bytes), "x");
    match (want, r2) {
        (Some(w), Ok(v)) => assert!(v.0 == w, "C03 LoadFrom converts the inner loader's result"),
        (None, Err(e)) => std::mem::forget(e),
        (_, r) => { std::mem::forget(r); assert!(false, "C03 LoadFrom succeeds exactly when the inner loader does") }
    }
}
instances! {
    c03_k5_bytes_loader_borrowed => bytes_loader(false);
    c03_k5_bytes_loader_owned => bytes_loader(true);
    c03_k5_parse_loader => parse_loader();
}

#[kani::proof]
#[kani::unwind(4)]
pub(crate) fn c03_k5_string_loader_borrowed() {
    string_loader(false)
}
// the Cow::Owned variant (String::from_utf8 on an owned Vec, FromUtf8Error keeps the Vec) exhausts memory in CBMC: not registered
