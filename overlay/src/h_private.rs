//! Harnesses hosted in `crate::utils::private` (keys, IdBuilder, path helpers). Overlay only.
#![allow(dead_code, unused_imports, unused_variables)]
use super::*;
use crate::amv::common::{tid, IDS};
use crate::amv::{cover, nd};
use std::hash::{Hash, Hasher};

macro_rules! instances {
    ($( $name:ident => $body:expr; )*) => { $(
        #[cfg_attr(kani, kani::proof)]
        #[cfg_attr(amv_replay, test)]
        #[cfg_attr(kani, kani::unwind(20))]
        pub(crate) fn $name() { $body }
    )* };
}

/// records everything a `Hash` impl feeds to the hasher
pub(crate) struct Transcript {
    pub buf: [u8; 64],
    pub len: usize,
}
impl Transcript {
    pub fn new() -> Self {
        Transcript { buf: [0; 64], len: 0 }
    }
    pub fn same(&self, o: &Transcript) -> bool {
        if self.len != o.len {
            return false;
        }
        let mut i = 0;
        while i < self.len {
            if self.buf[i] != o.buf[i] {
                return false;
            }
            i += 1;
        }
        true
    }
}
impl Hasher for Transcript {
    fn write(&mut self, bytes: &[u8]) {
        let mut i = 0;
        while i < bytes.len() {
            assert!(self.len < 64, "transcript bound");
            self.buf[self.len] = bytes[i];
            self.len += 1;
            i += 1;
        }
    }
    fn finish(&self) -> u64 {
        0
    }
}
fn tr<T: Hash + ?Sized>(x: &T) -> Transcript {
    let mut t = Transcript::new();
    x.hash(&mut t);
    t
}

/// C01.K5 — the borrowed / owned / dyn forms of a key agree on Eq and Hash, and Eq means (same type AND same id)
fn key_coherence(ty_i: usize, id_i: usize, ty_j: usize, id_j: usize) {
    let o = OwnedKey::new_with(IDS[id_i].into(), tid(ty_i));
    let b = BorrowedKey::new_with(IDS[id_j], tid(ty_j));
    let same = ty_i == ty_j && id_i == id_j;
    let (od, bd): (&dyn Key, &dyn Key) = (&o, &b);
    assert!((od == bd) == same, "C01/C02 borrowed-key equality holds exactly for the same (type, id)");
    assert!((bd == od) == same, "C01/C02 key equality is symmetric");
    assert!(od == od && bd == bd, "C01/C02 key equality is reflexive");
    let o2: OwnedKey = b.into();
    assert!((o == o2) == same, "C01/C02 owned-key equality holds exactly for the same (type, id)");
    assert!((o.borrow() == b) == same, "C01/C02 BorrowedKey equality holds exactly for the same (type, id)");
    assert!(o2.type_id == tid(ty_j) && &*o2.id == IDS[id_j], "to_owned keeps type and id");
    let via_borrow: &dyn Key = std::borrow::Borrow::borrow(&o);
    assert!(via_borrow == od, "Borrow<dyn Key> yields the key itself");
    // Hash coherence: what `insert` hashed (OwnedKey) is what look-ups hash (dyn Key over BorrowedKey)
    let (t_owned, t_dyn_owned, t_borrowed, t_dyn_borrowed) = (tr(&o2), tr(&o2 as &dyn Key), tr(&b), tr(bd));
    assert!(t_owned.same(&t_dyn_borrowed), "C01 owned and borrowed forms of one key feed the hasher identically");
    assert!(t_owned.same(&t_dyn_owned) && t_owned.same(&t_borrowed), "C01 all key forms feed the hasher identically");
    assert!(t_owned.len > 0, "the hash depends on something");
}
/// the same coherence for a LONG id (hashing must not depend on a prefix / suffix / length class of the id)
const LONG: &str = "dir.sub.another_directory.some_asset_name"; // 41 bytes
fn key_coherence_long() {
    let o = OwnedKey::new_with(LONG.into(), tid(0));
    let b = BorrowedKey::new_with(LONG, tid(0));
    let (od, bd): (&dyn Key, &dyn Key) = (&o, &b);
    assert!(od == bd, "C01/C02 key equality for a long id");
    let (t_owned, t_dyn_owned, t_borrowed, t_dyn_borrowed) = (tr(&o), tr(od), tr(&b), tr(bd));
    assert!(t_owned.len == 8 + LONG.len() + 1, "the whole id is hashed");
    assert!(t_owned.same(&t_dyn_borrowed) && t_owned.same(&t_dyn_owned) && t_owned.same(&t_borrowed), "C01 owned and borrowed forms of one key feed the hasher identically, whatever the length of the id (otherwise look-ups miss what insert stored)");
}
#[cfg_attr(kani, kani::proof)]
#[cfg_attr(amv_replay, test)]
#[cfg_attr(kani, kani::unwind(60))]
pub(crate) fn c01_k5_key_long_id() {
    key_coherence_long()
}
instances! {
    c01_k5_key_same => key_coherence(0, 0, 0, 0);
    c01_k5_key_other_id => key_coherence(0, 0, 0, 1);
    c01_k5_key_other_type => key_coherence(0, 0, 1, 0);
    c01_k5_key_other_both => key_coherence(1, 1, 0, 0);
    c01_k5_key_same_b => key_coherence(1, 1, 1, 1);
}

// ------------------------------------------------------------------------------------------------
// C04.K1 / C12.K3 — IdBuilder against a segment-sequence view; DirEntry::parent_id; extension_of
// ------------------------------------------------------------------------------------------------
#[cfg(any(feature = "tar", feature = "zip", feature = "hot-reloading"))]
mod idb {
    use super::*;
    const SEGS: [&str; 4] = ["a", "bc", "a.b", "."];
    fn pick() -> usize {
        (nd::<u8>() & 3) as usize
    }
    /// model: buffer of the valid segments pushed so far joined by '.'
    struct Model {
        buf: [u8; 12],
        len: usize,
        nseg: usize,
        seg_start: [usize; 4],
    }
    impl Model {
        fn push(&mut self, s: &str) {
            self.seg_start[self.nseg] = self.len;
            if self.nseg > 0 {
                self.buf[self.len] = b'.';
                self.len += 1;
            }
            let b = s.as_bytes();
            let mut i = 0;
            while i < b.len() {
                self.buf[self.len] = b[i];
                self.len += 1;
                i += 1;
            }
            self.nseg += 1;
        }
        fn pop(&mut self) -> bool {
            if self.nseg == 0 {
                return false;
            }
            self.nseg -= 1;
            self.len = self.seg_start[self.nseg];
            true
        }
        fn eq(&self, s: &str) -> bool {
            let b = s.as_bytes();
            if b.len() != self.len {
                return false;
            }
            let mut i = 0;
            while i < self.len {
                if b[i] != self.buf[i] {
                    return false;
                }
                i += 1;
            }
            true
        }
    }
    fn id_builder_steps(seq: [usize; 3], pop: bool) {
        let mut ib = IdBuilder::default();
        let mut m = Model { buf: [0; 12], len: 0, nseg: 0, seg_start: [0; 4] };
        assert!(&*ib.join() == "", "C04 the root id is the empty string");
        let mut k = 0;
        while k < 3 {
            let s = SEGS[seq[k]];
            let valid = s == "a" || s == "bc";
            let r = ib.push(s);
            assert!(r.is_some() == valid, "C04/C12 a segment is accepted iff it contains no '.' (names not expressible as an id produce no entry)");
            if valid {
                m.push(s);
            }
            assert!(m.eq(&ib.join()), "C04/C12 an id is its segments joined by '.' (a rejected segment leaves the id unchanged)");
            k += 1;
        }
        if pop {
            let r = ib.pop();
            let mr = m.pop();
            assert!(r.is_some() == mr, "IdBuilder::pop fails exactly on the empty id");
            assert!(m.eq(&ib.join()), "C12 pop removes exactly the last segment ('..' in a reported path)");
        }
        ib.reset();
        assert!(&*ib.join() == "", "reset yields the root id");
    }
    macro_rules! instances {
        ($( $name:ident => $body:expr; )*) => { $(
            #[cfg_attr(kani, kani::proof)]
            #[cfg_attr(kani, kani::unwind(14))]
            pub(crate) fn $name() { $body }
        )* };
    }
    instances! {
        c04_k1_id_builder_aba => id_builder_steps([0, 1, 0], true);
        c04_k1_id_builder_dot_mid => id_builder_steps([0, 3, 1], true);
        c04_k1_id_builder_dotted_first => id_builder_steps([2, 0, 1], false);
        c04_k1_id_builder_all_bad => id_builder_steps([3, 2, 3], true);
        c04_k1_id_builder_bc_bc => id_builder_steps([1, 1, 2], false);
    }
}

fn parent_id_cases() {
    use crate::source::DirEntry;
    let ids = ["", "a", "a.b", "a.b.c"];
    let want: [Option<&str>; 4] = [None, Some(""), Some("a"), Some("a.b")];
    let mut i = 0;
    while i < 4 {
        let mut k = 0;
        while k < 2 {
            let e = if k == 0 { DirEntry::File(ids[i], "x") } else { DirEntry::Directory(ids[i]) };
            assert!(e.parent_id() == want[i], "C12 the parent of an entry is the id without its last segment; the root has none");
            assert!(e.id() == ids[i] && e.is_dir() == !e.is_file() && e.is_dir() == (k == 1));
            let o = match e {
                DirEntry::File(id, ext) => crate::source::OwnedDirEntry::File(id.into(), ext.into()),
                DirEntry::Directory(id) => crate::source::OwnedDirEntry::Directory(id.into()),
            };
            assert!(o.as_dir_entry() == e, "OwnedDirEntry::as_dir_entry is the same entry");
            k += 1;
        }
        i += 1;
    }
}
#[cfg_attr(kani, kani::proof)]
#[cfg_attr(kani, kani::unwind(8))]
pub(crate) fn c12_k3_parent_id() {
    parent_id_cases()
}
