//! Harnesses hosted in `crate::utils::private` (keys, IdBuilder, path helpers). Overlay only.
#![allow(dead_code, unused_imports, unused_variables)]
use super::*;
use crate::amv::common::{tid, IDS};
use crate::amv::{cover, nd};
use std::hash::{Hash, Hasher};

macro_rules! instances {
    ($( $name:ident => $body:expr; )*) => { $(
        #[cfg_attr(kani, kani::proof)]
        #[cfg_attr(amv_replay, test)]
        #[cfg_attr(kani, kani::unwind(20))]
        pub(crate) fn $name() { $body }
    )* };
}

/// records everything a `Hash` impl feeds to the hasher
pub(crate) struct Transcript {
    pub buf: [u8; 48],
    pub len: usize,
}
impl Transcript {
    pub fn new() -> Self {
        Transcript { buf: [0; 48], len: 0 }
    }
    pub fn same(&self, o: &Transcript) -> bool {
        if self.len != o.len {
            return false;
        }
        let mut i = 0;
        while i < self.len {
            if self.buf[i] != o.buf[i] {
                return false;
            }
            i += 1;
        }
        true
    }
}
impl Hasher for Transcript {
    fn write(&mut self, bytes: &[u8]) {
        let mut i = 0;
        while i < bytes.len() {
            assert!(self.len < 48, "transcript bound");
            self.buf[self.len] = bytes[i];
            self.len += 1;
            i += 1;
        }
    }
    fn finish(&self) -> u64 {
        0
    }
}
fn tr<T: Hash + ?Sized>(x: &T) -> Transcript {
    let mut t = Transcript::new();
    x.hash(&mut t);
    t
}

/// C01.K5 — the borrowed / owned / dyn forms of a key agree on Eq and Hash, and Eq means (same type AND same id)
fn key_coherence(ty_i: usize, id_i: usize, ty_j: usize, id_j: usize) {
    let o = OwnedKey::new_with(IDS[id_i].into(), tid(ty_i));
    let b = BorrowedKey::new_with(IDS[id_j], tid(ty_j));
    let same = ty_i == ty_j && id_i == id_j;
    let (od, bd): (&dyn Key, &dyn Key) = (&o, &b);
    assert!((od == bd) == same, "C01/C02 borrowed-key equality holds exactly for the same (type, id)");
    assert!((bd == od) == same, "C01/C02 key equality is symmetric");
    assert!(od == od && bd == bd, "C01/C02 key equality is reflexive");
    let o2: OwnedKey = b.into();
    assert!((o == o2) == same, "C01/C02 owned-key equality holds exactly for the same (type, id)");
    assert!((o.borrow() == b) == same, "C01/C02 BorrowedKey equality holds exactly for the same (type, id)");
    assert!(o2.type_id == tid(ty_j) && &*o2.id == IDS[id_j], "to_owned keeps type and id");
    let via_borrow: &dyn Key = std::borrow::Borrow::borrow(&o);
    assert!(via_borrow == od, "Borrow<dyn Key> yields the key itself");
    // Hash coherence: what `insert` hashed (OwnedKey) is what look-ups hash (dyn Key over BorrowedKey)
    let (t_owned, t_dyn_owned, t_borrowed, t_dyn_borrowed) = (tr(&o2), tr(&o2 as &dyn Key), tr(&b), tr(bd));
    assert!(t_owned.same(&t_dyn_borrowed), "C01 owned and borrowed forms of one key feed the hasher identically");
    assert!(t_owned.same(&t_dyn_owned) && t_owned.same(&t_borrowed), "C01 all key forms feed the hasher identically");
    assert!(t_owned.len > 0, "the hash depends on something");
}
instances! {
    c01_k5_key_same => key_coherence(0, 0, 0, 0);
    c01_k5_key_other_id => key_coherence(0, 0, 0, 1);
    c01_k5_key_other_type => key_coherence(0, 0, 1, 0);
    c01_k5_key_other_both => key_coherence(1, 1, 0, 0);
    c01_k5_key_same_b => key_coherence(1, 1, 1, 1);
}
