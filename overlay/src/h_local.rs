//! Harnesses hosted in `crate::local_cache`: the real RefCell-backed AssetMap and LocalAssetCache over the
//! map contract stub (vmap). Overlay only.
#![allow(dead_code, unused_imports, unused_variables)]
use super::*;
use crate::amv::common::*;
use crate::amv::{cover, nd};
use crate::anycache::AssetMap as AssetMapT;
use std::any::Any;

macro_rules! instances {
    ($( $name:ident => $body:expr; )*) => { $(
        #[cfg_attr(kani, kani::proof)]
        #[cfg_attr(amv_replay, test)]
        #[cfg_attr(kani, kani::unwind(10))]
        #[cfg_attr(kani, kani::stub(crate::error::ErrorKind::or, crate::amv::common::or_contract))]
        #[cfg_attr(kani, kani::stub(std::thread::available_parallelism, crate::amv::common::par1))]
        pub(crate) fn $name() { $body }
    )* };
}

crate::amv::common::real_map_scenarios!();

instances! {
    c01_l_fww_min => s_fww_min();
    c01_l_first_writer_wins => m_first_writer_wins();
    c01_l_two_ids => m_two_ids();
    c01_l_type_separation => m_type_separation();
    c01_l_clear => m_clear();
    c01_l_take_dh => m_take_tracked();
}

// ---- the real LocalAssetCache front-end end-to-end (bounded scenario) ---------------------------------------------
fn l_cache_scenario() {
    let mut c = LocalAssetCache::with_source(Mem::new(O::Good, O::Good, nd(), nd()));
    let (v, w): (u8, u8) = (nd(), nd());
    let p1 = c.get_or_insert::<A>("a", A(v)) as *const Handle<A>;
    let h2 = c.get_or_insert::<A>("a", A(w));
    assert!(h2 as *const Handle<A> == p1 && h2.read().0 == v, "C01/C02 get_or_insert never overwrites and returns the same handle");
    let hb = match c.load::<A>("b") { Ok(h) => h, Err(e) => { std::mem::forget(e); panic!("load of a good file failed") } };
    assert!(hb.read().0 == c.source.data[1][0], "C03 load returns what the source holds");
    assert!(c.contains::<A>("a") && c.contains::<A>("b") && !c.contains::<B>("a"), "C02 contains is per (id,type)");
    assert!(!c.as_any_cache().is_hot_reloaded(), "C10 a LocalAssetCache has no reloader");
    match c.take::<A>("a") { Some(a) => assert!(a.0 == v, "C02 take hands back the stored value"), None => assert!(false, "C02 take of a cached key") }
    assert!(!c.contains::<A>("a") && c.contains::<A>("b"), "C02 take removes exactly what it names");
    assert!(c.remove::<A>("b") && !c.remove::<A>("b"), "C02 remove reports presence and removes");
    c.clear();
    assert!(!c.contains::<A>("b"));
    std::mem::forget(c);
}
instances! {
    c02_l_cache_scenario => l_cache_scenario();
}
