//! Harnesses hosted in `crate::anycache`: the generic front-end (RawCache -> Cache -> CacheExt -> AnyCache)
//! over the contract map. Overlay only.
#![allow(dead_code, unused_imports, unused_variables)]
use super::*;
use crate::amv::common::*;
use crate::amv::{cover, nd};

/// source outcome selector: 0 Good, 1 NotFound, 2 Denied, 3 Bad (undecodable), 4 symbolic error kind, 5 fully symbolic
fn outcome(oc: u8) -> O {
    match oc {
        0 => O::Good,
        1 => O::NotFound,
        2 => O::Denied,
        3 => O::Bad,
        4 => any_err_o(),
        _ => any_o(),
    }
}
fn addr_of<T>(h: &Handle<T>) -> *const () {
    h as *const Handle<T> as *const ()
}

/// Generates one Kani harness per listed instance (the enumeration is part of the obligation's label).
macro_rules! instances {
    ($( $name:ident => $body:expr; )*) => { $(
        #[cfg_attr(kani, kani::proof)]
        #[cfg_attr(amv_replay, test)]
        #[cfg_attr(kani, kani::unwind(10))]
        #[cfg_attr(kani, kani::stub(crate::error::ErrorKind::or, crate::amv::common::or_contract))]
        pub(crate) fn $name() { $body }
    )* };
}

/// error-path instances: small unwinding bound (the drop glue of `Error` is recursive through `dyn Error`; every extra
/// unrolling multiplies CBMC's formula) — these harnesses contain no loop of their own
macro_rules! shallow_instances {
    ($( $name:ident => $body:expr; )*) => { $(
        #[cfg_attr(kani, kani::proof)]
        #[cfg_attr(amv_replay, test)]
        #[cfg_attr(kani, kani::unwind(3))]
        #[cfg_attr(kani, kani::stub(crate::error::ErrorKind::or, crate::amv::common::or_contract))]
        pub(crate) fn $name() { $body }
    )* };
}

// ------------------------------------------------------------------------------------------------
// C02 — every operation is a step of the (id,type) -> value map model
//   pre-state: concrete shape `mask` (enumerated), symbolic values; source outcome: Good / symbolic error kind
// ------------------------------------------------------------------------------------------------
fn step_load<T: Compound + Mk>(ty_i: usize, mask: u8, oc: u8) {
    let o = outcome(oc);
    let c = GC::new(Mem::new(o, any_o(), nd(), nd()));
    gfill(&c.map, mask, false);
    let pre = gview(&c.map);
    let d = c.src.data[0][0];
    let k = kidx(0, ty_i);
    let r = c._load::<T>("a");
    let post = gview(&c.map);
    frame_except(&pre, &post, k);
    match r {
        Ok(h) => {
            if pre[k].present {
                assert!(post[k] == pre[k], "C02 load hit: entry unchanged");
                assert!(addr_of(h) == pre[k].addr, "C02 load hit: returns the cached handle");
                assert!(c.src.reads.get() == 0, "C02 load hit: no source read");
                assert!(c.map.inserts.get() == 0, "C02 load hit: no insert");
            } else {
                assert!(o == O::Good, "C02 load: success only if the source holds a decodable file");
                assert!(post[k].present && post[k].val == d, "C02 load miss: caches exactly the loaded value");
                assert!(addr_of(h) == post[k].addr, "C02 load miss: returns the handle of the new entry");
                assert!(c.src.reads.get() == 1, "C02 load miss: one source read");
            }
            assert!(h.read().val() == post[k].val, "C02 load: handle reads the cached value");
            assert!(&**h.id() == "a", "C02 load: handle carries the requested id");
        }
        Err(e) => {
            assert!(!pre[k].present, "C02 load: a cached key never fails");
            assert!(o != O::Good, "C02 load: fails only if the source cannot provide the asset");
            assert!(!post[k].present, "C02/C03 failed load caches nothing");
            assert!(c.map.inserts.get() == 0, "C02/C03 failed load inserts nothing");
            assert!(&**e.id() == "a", "C03 error names the requested id");
            std::mem::forget(e);
        }
    }
    std::mem::forget(c);
}
instances! {
    c02_k01_load_a_hit0 => step_load::<A>(0, 0b0001, 0);
    c02_k01_load_a_hit1 => step_load::<A>(0, 0b1111, 5);
    c02_k01_load_a_ok0 => step_load::<A>(0, 0b0000, 0);
    c02_k01_load_a_ok1 => step_load::<A>(0, 0b1110, 0);
    c02_k01_load_s_hit => step_load::<S>(2, 0b1111, 0);
    c02_k01_load_s_ok => step_load::<S>(2, 0b0111, 0);
}
/// error path, light observation (a full view on the error path costs CBMC 130+ s): nothing inserted,
/// presence flags unchanged, one read, error names the id
fn step_load_err<T: Compound + Mk>(ty_i: usize, mask: u8, oc: u8) {
    let c = GC::new(Mem::new(outcome(oc), O::Good, nd(), nd()));
    gfill(&c.map, mask, false);
    let k = kidx(0, ty_i);
    let r = c._load::<T>("a");
    match r {
        Ok(h) => assert!(false, "C02/C03 load must fail when the source cannot provide the asset"),
        Err(e) => {
            assert!(c.map.inserts.get() == 0, "C02/C03 failed load inserts nothing");
            assert!(!c.map.present[k].get(), "C02/C03 failed load caches nothing");
            assert!(c.map.present[kidx(0, 1)].get() == (mask & 2 != 0) && c.map.present[kidx(1, 0)].get() == (mask & 4 != 0), "C02 failed load leaves other keys alone");
            assert!(c.src.reads.get() == 1, "C03 one read per declared extension");
            assert!(&**e.id() == "a", "C03 error names the requested id");
            std::mem::forget(e);
        }
    }
    std::mem::forget(c);
}
shallow_instances! {
    c02_k01e_load_a_err0 => step_load_err::<A>(0, 0b0000, 4);
    c02_k01e_load_a_err1 => step_load_err::<A>(0, 0b1110, 4);
    c02_k01e_load_s_err => step_load_err::<S>(2, 0b0111, 4);
}

// ---- load_owned: never touches the map --------------------------------------------------------
fn step_load_owned<T: Compound + Mk>(ty_i: usize, mask: u8, oc: u8) {
    let o = outcome(oc);
    let c = GC::new(Mem::new(o, O::Good, nd(), nd()));
    gfill(&c.map, mask, false);
    let pre = gview(&c.map);
    let d = c.src.data[0][0];
    let r = c._load_owned::<T>("a");
    match r {
        Ok(v) => {
            let post = gview(&c.map);
            frame_all(&pre, &post);
            assert!(o == O::Good, "C02 load_owned succeeds only if the source provides the asset");
            assert!(v.val() == d, "C02/C03 load_owned returns the value loaded from the source (not a cached one)");
            assert!(c.src.reads.get() == 1, "C02 load_owned always reads the source");
        }
        Err(e) => {
            assert!(o != O::Good, "C02 load_owned fails only if the source cannot provide the asset");
            assert!(&**e.id() == "a", "C03 error names the requested id");
            std::mem::forget(e);
        }
    }
    assert!(c.map.inserts.get() == 0, "C02 load_owned caches nothing");
    std::mem::forget(c);
}
instances! {
    c02_k02_load_owned_a0 => step_load_owned::<A>(0, 0b0000, 0);
    c02_k02_load_owned_a1 => step_load_owned::<A>(0, 0b1111, 0);
    c02_k02_load_owned_s1 => step_load_owned::<S>(2, 0b1111, 0);
}
instances! {
    c02_k02e_load_owned_a_err => step_load_owned::<A>(0, 0b0001, 4);
}

// ---- get_cached: pure look-up ---------------------------------------------------------------------
fn step_get_cached<T: Storable + Mk>(ty_i: usize, mask: u8) {
    let c = GC::new(Mem::any());
    gfill(&c.map, mask, false);
    let pre = gview(&c.map);
    let k = kidx(0, ty_i);
    let r = c._get_cached::<T>("a");
    let post = gview(&c.map);
    frame_all(&pre, &post);
    match r {
        Some(h) => {
            assert!(pre[k].present, "C02 get_cached returns Some only for a cached key");
            assert!(addr_of(h) == pre[k].addr && h.read().val() == pre[k].val, "C02 get_cached returns the cached handle");
        }
        None => assert!(!pre[k].present, "C02 get_cached returns None only for an absent key"),
    }
    assert!(c.src.reads.get() == 0 && c.src.dir_reads.get() == 0, "C02 get_cached never reads the source");
    assert!(c.map.inserts.get() == 0, "C02 get_cached inserts nothing");
    std::mem::forget(c);
}
instances! {
    c02_k03_get_cached_a_hit => step_get_cached::<A>(0, 0b1111);
    c02_k03_get_cached_a_miss => step_get_cached::<A>(0, 0b1110);
    c02_k03_get_cached_b_hit => step_get_cached::<B>(1, 0b0010);
    c02_k03_get_cached_s_miss => step_get_cached::<S>(2, 0b0111);
}

// ---- get_or_insert: never overwrites, adds exactly the key on a miss ---------------------------------
fn step_get_or_insert<T: Storable + Mk>(ty_i: usize, mask: u8) {
    let c = GC::new(Mem::any());
    gfill(&c.map, mask, false);
    let pre = gview(&c.map);
    let k = kidx(0, ty_i);
    let v: u8 = nd();
    let h = c._get_or_insert::<T>("a", T::mk(v));
    let post = gview(&c.map);
    frame_except(&pre, &post, k);
    if pre[k].present {
        assert!(post[k] == pre[k], "C02 get_or_insert never overwrites");
        assert!(addr_of(h) == pre[k].addr, "C01/C02 get_or_insert returns the existing handle");
    } else {
        assert!(post[k].present && post[k].val == v, "C02 get_or_insert on an absent key stores the given value");
        assert!(addr_of(h) == post[k].addr, "C02 get_or_insert returns the handle of the new entry");
    }
    assert!(h.read().val() == post[k].val, "C02 get_or_insert: handle reads the cached value");
    assert!(&**h.id() == "a", "C02 get_or_insert: handle carries the requested id");
    assert!(c.src.reads.get() == 0 && c.src.dir_reads.get() == 0, "C02 get_or_insert never reads the source");
    std::mem::forget(c);
}
instances! {
    c02_k04_goi_a_hit => step_get_or_insert::<A>(0, 0b1111);
    c02_k04_goi_a_miss => step_get_or_insert::<A>(0, 0b1110);
    c02_k04_goi_b_miss => step_get_or_insert::<B>(1, 0b0101);
    c02_k04_goi_s_hit => step_get_or_insert::<S>(2, 0b1000);
    c02_k04_goi_s_miss => step_get_or_insert::<S>(2, 0b0011);
}

// ---- contains -------------------------------------------------------------------------------------------
fn step_contains<T: Storable + Mk>(ty_i: usize, mask: u8) {
    let c = GC::new(Mem::any());
    gfill(&c.map, mask, false);
    let pre = gview(&c.map);
    let k = kidx(0, ty_i);
    let r = c._contains::<T>("a");
    let rb = c._contains::<T>("b");
    let post = gview(&c.map);
    frame_all(&pre, &post);
    assert!(r == pre[k].present, "C02 contains answers presence of exactly (id,type)");
    assert!(rb == pre[kidx(1, ty_i)].present, "C02 contains answers presence of exactly (id,type)");
    assert!(c.src.reads.get() == 0 && c.map.inserts.get() == 0, "C02 contains has no effect");
    std::mem::forget(c);
}
instances! {
    c02_k05_contains_a => step_contains::<A>(0, 0b1011);
    c02_k05_contains_a2 => step_contains::<A>(0, 0b0110);
    c02_k05_contains_b => step_contains::<B>(1, 0b0101);
    c02_k05_contains_s => step_contains::<S>(2, 0b1000);
}

// ---- C02.K31: the AnyCache view forwards to the same cache object ------------------------------------------
fn step_anycache(mask: u8) {
    let c = GC::new(Mem::new(O::Good, O::Good, nd(), nd()));
    gfill(&c.map, mask, false);
    let any = c._as_any_cache();
    let v: u8 = nd();
    // the same operations through the AnyCache view observe and produce the same entries
    let h1 = match any.load::<A>("a") { Ok(h) => h, Err(e) => { std::mem::forget(e); panic!("AnyCache::load failed on a good source") } };
    let h2 = match c._load::<A>("a") { Ok(h) => h, Err(e) => { std::mem::forget(e); panic!("load failed on a good source") } };
    assert!(addr_of(h1) == addr_of(h2), "C01/C02 AnyCache::load and the cache's own load yield the very same handle");
    let g1 = any.get_or_insert::<B>("a", B(v));
    let g2 = c._get_or_insert::<B>("a", B(v.wrapping_add(1)));
    assert!(addr_of(g1) == addr_of(g2), "C01/C02 AnyCache::get_or_insert and the cache's own yield the same handle");
    match (any.get_cached::<A>("a"), c._get_cached::<A>("a")) {
        (Some(x), Some(y)) => assert!(addr_of(x) == addr_of(y) && addr_of(x) == addr_of(h1), "C01 get_cached yields the same handle through both front-ends"),
        _ => assert!(false, "C02 get_cached after load must hit through both front-ends"),
    }
    assert!(any.contains::<A>("a") && c._contains::<A>("a") && any.contains::<B>("a"), "C02 contains agrees through both front-ends");
    assert!(any.contains::<A>("b") == c._contains::<A>("b") && any.contains::<A>("b") == (mask & 4 != 0), "C02 contains agrees through both front-ends");
    assert!(any.is_hot_reloaded() == c._has_reloader(), "AnyCache::is_hot_reloaded forwards");
    std::mem::forget(c);
}
instances! {
    c02_k31_anycache_0 => step_anycache(0b0000);
    c02_k31_anycache_1 => step_anycache(0b0111);
}

// ---- C02.K32: nested loads: a Compound caches what it requests through the nested load ---------------------
fn step_nested(mask: u8, oc: u8) {
    let o = outcome(oc);
    let c = GC::new(Mem::new(o, O::Good, nd(), nd()));
    gfill(&c.map, mask, false);
    let pre = gview(&c.map);
    let d = c.src.data[0][0];
    let (ka, ky) = (kidx(0, 0), kidx(0, 3));
    let r = c._load::<Y>("a");
    match r {
        Ok(h) => {
            let post = gview(&c.map);
            let mut i = 0;
            while i < NK {
                if i != ka && i != ky {
                    assert!(pre[i] == post[i], "C02 nested load: unrelated entries unchanged");
                }
                i += 1;
            }
            assert!(post[ka].present && post[ky].present, "C02 nested load caches the compound and the asset it requested");
            let av = if pre[ka].present { assert!(post[ka] == pre[ka], "C02 nested load does not overwrite a cached dependency"); pre[ka].val } else { assert!(o == O::Good && post[ka].val == d, "C02 nested load caches the dependency as loaded"); d };
            assert!(post[ky].val == av.wrapping_add(1) && h.read().0 == post[ky].val, "C03 a Compound yields what its load function computes from the assets it requests");
        }
        Err(e) => {
            assert!(!pre[ka].present && o != O::Good, "C02 nested load fails only if the dependency cannot be loaded");
            assert!(!c.map.present[ky].get() && !c.map.present[ka].get() && c.map.inserts.get() == 0, "C02/C03 failed compound caches nothing of its own");
            assert!(&**e.id() == "a", "C03 compound error carries the compound's id");
            std::mem::forget(e);
        }
    }
    std::mem::forget(c);
}
instances! {
    c02_k32_nested_fresh => step_nested(0b0000, 0);
    c02_k32_nested_dep_cached => step_nested(0b0111, 5);
}
instances! {
    c02_k32e_nested_err => step_nested(0b0110, 4);
}

// ---- C03.K4 / C09: a failure caches nothing and the same call succeeds as soon as the source is fixed ---------------
fn step_retry(mask: u8) {
    let c = GC::new(Mem::new(any_err_o(), O::Good, nd(), nd()));
    gfill(&c.map, mask, false);
    match c._load::<A>("a") {
        Ok(_) => assert!(false, "C03 load must fail while the file cannot be read or decoded"),
        Err(e) => {
            assert!(&**e.id() == "a", "C03 error names the requested id");
            std::mem::forget(e);
        }
    }
    assert!(!c._contains::<A>("a") && c.map.inserts.get() == 0, "C03 a failure caches nothing");
    c.src.o[0].set(O::Good); // repair
    match c._load::<A>("a") {
        Ok(h) => assert!(h.read().0 == c.src.data[0][0] && c._contains::<A>("a"), "C03 the same call succeeds as soon as the source is fixed"),
        Err(e) => {
            std::mem::forget(e);
            assert!(false, "C03/C09 a failed load must not poison later loads");
        }
    }
    assert!(c.src.reads.get() == 2, "one read per attempt");
    std::mem::forget(c);
}
shallow_instances! {
    c03_k4_retry_0 => step_retry(0b0000);
    c03_k4_retry_1 => step_retry(0b0110);
}
