//! Harnesses hosted in `crate::utils::bytes`: SharedBytes. Overlay only.
#![allow(dead_code, unused_imports, unused_variables, static_mut_refs)]
use super::*;
use crate::amv::{cover, nd};
use std::hash::{Hash, Hasher};

// ---- allocation ledger: contract stubs of std::alloc::{alloc, dealloc} as used DIRECTLY by SharedBytes ---------------
// (Vec / Box allocate through the same functions, so their buffers are in the ledger too)
pub(crate) struct Block {
    ptr: *mut u8,
    size: usize,
    align: usize,
    live: bool,
}
pub(crate) static mut LEDGER: [Block; 4] = [Block { ptr: std::ptr::null_mut(), size: 0, align: 0, live: false }, Block { ptr: std::ptr::null_mut(), size: 0, align: 0, live: false }, Block { ptr: std::ptr::null_mut(), size: 0, align: 0, live: false }, Block { ptr: std::ptr::null_mut(), size: 0, align: 0, live: false }];
/// allocations are recorded only while a SharedBytes constructor runs (Vec / Box buffers made by the harness are not ours)
pub(crate) static mut TRACK: bool = false;
pub(crate) static mut NALLOC: usize = 0;
pub(crate) static mut NFREE: usize = 0;
pub(crate) unsafe fn alloc_rec(layout: alloc::Layout) -> *mut u8 {
    let p = alloc::alloc_zeroed(layout);
    if TRACK {
        assert!(NALLOC < 4, "ledger bound");
        LEDGER[NALLOC] = Block { ptr: p, size: layout.size(), align: layout.align(), live: true };
        NALLOC += 1;
    }
    p
}
pub(crate) unsafe fn dealloc_rec(ptr: *mut u8, layout: alloc::Layout) {
    let mut i = 0;
    let mut found = false;
    while i < NALLOC {
        if LEDGER[i].ptr == ptr {
            found = true;
            assert!(LEDGER[i].live, "C16 the buffer is released exactly once (double free)");
            assert!(LEDGER[i].size == layout.size() && LEDGER[i].align == layout.align(), "C16 the buffer is released with the layout it was allocated with");
            LEDGER[i].live = false;
        }
        i += 1;
    }
    if found {
        NFREE += 1;
    }
    alloc::System.dealloc(ptr, layout);
}
use std::alloc::GlobalAlloc;
fn live_blocks() -> usize {
    unsafe { NALLOC - NFREE }
}
fn tracked<T>(f: impl FnOnce() -> T) -> T {
    unsafe { TRACK = true };
    let r = f();
    unsafe { TRACK = false };
    r
}

macro_rules! instances {
    ($( $name:ident => $body:expr; )*) => { $(
        #[cfg_attr(kani, kani::proof)]
        #[cfg_attr(kani, kani::unwind(8))]
        #[cfg_attr(kani, kani::stub(std::alloc::alloc, alloc_rec))]
        #[cfg_attr(kani, kani::stub(std::alloc::dealloc, dealloc_rec))]
        pub(crate) fn $name() { $body }
    )* };
}

fn same(b: &SharedBytes, data: &[u8; 4], len: usize, i: usize) {
    assert!(b.len() == len, "C16 a SharedBytes has exactly the length it was built from");
    assert!(i >= len || b[i] == data[i], "C16 a SharedBytes dereferences to exactly the bytes it was built from");
}

/// C16.K1 — from_slice: content, aliasing clones, released exactly once after the last clone, with the right layout
fn from_slice() {
    let data: [u8; 4] = [nd(), nd(), nd(), nd()];
    let len = (nd::<u8>() % 5) as usize;
    let i = (nd::<u8>() % 4) as usize;
    let b = tracked(|| SharedBytes::from_slice(&data[..len]));
    same(&b, &data, len, i);
    assert!(live_blocks() == 1, "from_slice makes one allocation");
    let _ = unsafe { NFREE };
    let c = b.clone();
    let d = SharedBytes::from(&c);
    assert!(c.as_ptr() == b.as_ptr() && d.as_ptr() == b.as_ptr(), "C16 all clones alias the same content");
    assert!(live_blocks() == 1, "C16 cloning does not copy");
    if nd() {
        drop(b);
        assert!(live_blocks() == 1, "C16 the buffer outlives every clone but the last");
        same(&c, &data, len, i);
        drop(d);
        assert!(live_blocks() == 1);
        same(&c, &data, len, i);
        drop(c);
    } else {
        drop(d);
        drop(c);
        assert!(live_blocks() == 1, "C16 the buffer outlives every clone but the last");
        same(&b, &data, len, i);
        drop(b);
    }
    assert!(live_blocks() == 0 && unsafe { NFREE } == 1, "C16 the buffer is released exactly once, after the last clone is dropped");
}
/// C16.K2 — from_vec: zero and excess capacity; the Vec's buffer is adopted, both blocks are released once
fn from_vec(extra: usize) {
    let data: [u8; 4] = [nd(), nd(), nd(), nd()];
    let len = (nd::<u8>() % 4) as usize;
    let i = (nd::<u8>() % 4) as usize;
    let mut v: Vec<u8> = Vec::with_capacity(len + extra);
    let mut k = 0;
    while k < len {
        v.push(data[k]);
        k += 1;
    }
    let (vp, vcap) = (v.as_ptr(), v.capacity());
    let base = 0;
    let b = tracked(|| SharedBytes::from_vec(v));
    same(&b, &data, len, i);
    assert!(vcap == 0 || b.as_ptr() == vp, "C16 from_vec adopts the Vec's buffer");
    assert!(live_blocks() == base + 1, "from_vec allocates the header only");
    let c = b.clone();
    drop(b);
    same(&c, &data, len, i);
    assert!(live_blocks() == base + 1, "C16 the buffer outlives every clone but the last");
    drop(c);
    assert!(live_blocks() == 0, "C16 header and adopted buffer are each released exactly once with their own layouts (also for a zero-capacity Vec)");
}
/// C16.K3 — the other constructors reduce to these two
fn other_ctors(which: u8) {
    let data: [u8; 4] = [nd(), nd(), nd(), nd()];
    let len = (nd::<u8>() % 4) as usize;
    let i = (nd::<u8>() % 4) as usize;
    let (v1, v2) = (data[..len].to_vec(), data[..len].to_vec().into_boxed_slice());
    let b: SharedBytes = tracked(|| match which {
        0 => SharedBytes::from(&data[..len]),
        1 => SharedBytes::from(v1),
        2 => SharedBytes::from(v2),
        3 => SharedBytes::from(Cow::Borrowed(&data[..len])),
        4 => SharedBytes::from(Cow::<[u8]>::Owned(v1)),
        _ => {
            unsafe { TRACK = false }; // the iterator's collect() allocates its own Vec
            let v: Vec<u8> = data[..len].iter().copied().collect();
            unsafe { TRACK = true };
            SharedBytes::from_vec(v)
        }
    });
    same(&b, &data, len, i);
    let r: &[u8] = b.as_ref();
    let bo: &[u8] = std::borrow::Borrow::borrow(&b);
    assert!(r.len() == len && bo.len() == len && (i >= len || (r[i] == data[i] && bo[i] == data[i])), "as_ref / borrow show the same bytes");
    assert!(live_blocks() == 1, "every constructor makes exactly one allocation of its own");
    drop(b);
    assert!(live_blocks() == 0, "C16 everything the SharedBytes owned is released exactly once");
}
instances! {
    c16_k1_from_slice => from_slice();
    c16_k2_from_vec_exact => from_vec(0);
    c16_k2_from_vec_excess => from_vec(2);
    c16_k3_ctor_slice => other_ctors(0);
    c16_k3_ctor_vec => other_ctors(1);
    c16_k3_ctor_box => other_ctors(2);
    c16_k3_ctor_cow_borrowed => other_ctors(3);
    c16_k3_ctor_cow_owned => other_ctors(4);
}

/// C16.K4 — comparisons, ordering and hashing are those of the slices
struct Tr {
    buf: [u8; 24],
    len: usize,
}
impl Hasher for Tr {
    fn write(&mut self, bytes: &[u8]) {
        let mut i = 0;
        while i < bytes.len() {
            assert!(self.len < 24);
            self.buf[self.len] = bytes[i];
            self.len += 1;
            i += 1;
        }
    }
    fn finish(&self) -> u64 {
        0
    }
}
fn tr<T: Hash + ?Sized>(x: &T) -> Tr {
    let mut t = Tr { buf: [0; 24], len: 0 };
    x.hash(&mut t);
    t
}
fn cmp_like_slices() {
    let (d1, d2): ([u8; 2], [u8; 2]) = ([nd(), nd()], [nd(), nd()]);
    let (l1, l2) = ((nd::<u8>() % 3) as usize, (nd::<u8>() % 3) as usize);
    let (s1, s2) = (&d1[..l1], &d2[..l2]);
    let (a, b) = (SharedBytes::from_slice(s1), SharedBytes::from_vec(s2.to_vec()));
    assert!((a == b) == (s1 == s2), "C16 SharedBytes compare like the slices they hold");
    assert!((a == *s2) == (s1 == s2) && (a == s2) == (s1 == s2) && (a == s2.to_vec()) == (s1 == s2), "C16 mixed comparisons delegate to the slice");
    assert!(a.cmp(&b) == s1.cmp(s2), "C16 SharedBytes order like the slices they hold");
    assert!(a.partial_cmp(&b) == Some(s1.cmp(s2)) && a.partial_cmp(s2) == Some(s1.cmp(s2)), "C16 partial order delegates to the slice");
    let (ta, ts) = (tr(&a), tr(s1));
    assert!(ta.len == ts.len, "C16 SharedBytes hash like the slices they hold");
    let mut i = 0;
    while i < ta.len {
        assert!(ta.buf[i] == ts.buf[i], "C16 SharedBytes hash like the slices they hold");
        i += 1;
    }
}
#[cfg_attr(kani, kani::proof)]
#[cfg_attr(kani, kani::unwind(12))]
pub(crate) fn c16_k4_cmp_like_slices() {
    cmp_like_slices()
}
/// FromIterator collects and adopts
#[cfg_attr(kani, kani::proof)]
#[cfg_attr(kani, kani::unwind(8))]
pub(crate) fn c16_k3_ctor_iter() {
    let data: [u8; 3] = [nd(), nd(), nd()];
    let len = (nd::<u8>() % 4) as usize;
    let i = (nd::<u8>() % 3) as usize;
    let b: SharedBytes = data[..len].iter().copied().collect();
    assert!(b.len() == len && (i >= len || b[i] == data[i]), "C16 FromIterator yields exactly the iterator's bytes");
}

// ---- the adopted Vec buffer must be handed back with the capacity it was allocated with ---------------------------------
#[cfg(kani)]
static mut ADOPTED: (*mut u8, usize) = (std::ptr::null_mut(), 0);
#[cfg(kani)]
static mut ADOPTED_FREES: u8 = 0;
#[cfg(kani)]
unsafe fn global_deallocate_rec(_this: &alloc::Global, ptr: NonNull<u8>, layout: alloc::Layout) {
    if ptr.as_ptr() == ADOPTED.0 {
        ADOPTED_FREES += 1;
        assert!(layout.size() == ADOPTED.1 && layout.align() == 1, "C16 the adopted Vec buffer is released with the capacity it was allocated with");
    }
    if layout.size() != 0 {
        alloc::System.dealloc(ptr.as_ptr(), layout);
    }
}
#[cfg(kani)]
#[kani::proof]
#[kani::unwind(8)]
#[kani::stub(<std::alloc::Global as std::alloc::Allocator>::deallocate, global_deallocate_rec)]
pub(crate) fn c16_k2_from_vec_buffer_layout() {
    let len = (nd::<u8>() % 3) as usize;
    let mut v: Vec<u8> = Vec::with_capacity(len + 2);
    let mut k = 0;
    while k < len {
        v.push(nd());
        k += 1;
    }
    unsafe { ADOPTED = (v.as_mut_ptr(), v.capacity()) };
    let b = SharedBytes::from_vec(v);
    let c = b.clone();
    drop(b);
    assert!(unsafe { ADOPTED_FREES } == 0, "C16 the buffer outlives every clone but the last");
    drop(c);
    assert!(unsafe { ADOPTED_FREES } == 1, "C16 the adopted buffer is released exactly once, after the last clone (also when it is empty but has capacity)");
}
