//! amv support module (overlay only; never part of /repo). Hosted from lib.rs as `crate::amv`.
#![allow(dead_code, unused_imports, unused_macros, missing_docs, missing_debug_implementations)]

#[cfg(kani)]
#[path = "vmap.rs"]
pub(crate) mod vmap;
#[cfg(kani)]
#[path = "vsync.rs"]
pub(crate) mod vsync;
#[cfg(kani)]
#[path = "vhash.rs"]
pub(crate) mod vhash;
#[cfg(all(kani, feature = "utils"))]
#[path = "vonce.rs"]
pub(crate) mod vonce;
#[path = "common.rs"]
pub(crate) mod common;
#[cfg(amv_tsig)]
#[path = "tsig.rs"]
pub(crate) mod tsig;

// ---- non-deterministic inputs: symbolic under Kani, popped from the replay file natively -------------
#[cfg(kani)]
pub(crate) trait Nd: kani::Arbitrary {}
#[cfg(kani)]
impl<T: kani::Arbitrary> Nd for T {}
#[cfg(kani)]
#[inline]
pub(crate) fn nd<T: Nd>() -> T {
    kani::any()
}

#[cfg(not(kani))]
pub(crate) trait Nd: Sized {
    fn from_le(b: &[u8]) -> Self;
}
#[cfg(not(kani))]
macro_rules! nd_int { ($($t:ty),*) => { $( impl Nd for $t { fn from_le(b: &[u8]) -> Self { let mut a = [0u8; std::mem::size_of::<$t>()]; let n = a.len().min(b.len()); a[..n].copy_from_slice(&b[..n]); <$t>::from_le_bytes(a) } } )* } }
#[cfg(not(kani))]
nd_int!(u8, u16, u32, u64, usize, i8, i16, i32, i64, isize);
#[cfg(not(kani))]
impl Nd for bool {
    fn from_le(b: &[u8]) -> Self {
        b.first().copied().unwrap_or(0) != 0
    }
}
#[cfg(not(kani))]
thread_local! {
    static REPLAY: std::cell::RefCell<Option<std::collections::VecDeque<Vec<u8>>>> = const { std::cell::RefCell::new(None) };
}
#[cfg(not(kani))]
pub(crate) fn nd<T: Nd>() -> T {
    REPLAY.with(|r| {
        let mut r = r.borrow_mut();
        if r.is_none() {
            let path = std::env::var("AMV_REPLAY_VALUES").expect("AMV_REPLAY_VALUES not set");
            let txt = std::fs::read_to_string(path).expect("replay values file");
            let q = txt
                .lines()
                .map(|l| l.split_whitespace().map(|x| x.parse::<u8>().unwrap()).collect::<Vec<u8>>())
                .collect();
            *r = Some(q);
        }
        let v = r.as_mut().unwrap().pop_front().expect("replay values exhausted");
        T::from_le(&v)
    })
}

#[cfg(kani)]
#[inline]
pub(crate) fn assume(c: bool) {
    kani::assume(c)
}
#[cfg(not(kani))]
pub(crate) fn assume(c: bool) {
    if !c {
        // the replayed values do not satisfy the harness precondition: not a reproduction
        eprintln!("amv: replay values violate an assumption");
        std::process::exit(0);
    }
}

macro_rules! cover {
    ($c:expr) => {{
        #[cfg(kani)]
        kani::cover!($c);
        #[cfg(not(kani))]
        let _ = $c;
    }};
    ($c:expr, $m:literal) => {{
        #[cfg(kani)]
        kani::cover!($c, $m);
        #[cfg(not(kani))]
        let _ = $c;
    }};
}
pub(crate) use cover;

/// Canary: must be reported as FAILED by Kani on every run, otherwise nothing of the run is believed.
#[cfg_attr(kani, kani::proof)]
#[cfg_attr(amv_replay, test)]
pub(crate) fn amv_canary_false() {
    let a: u8 = nd();
    assert!(a != 7, "amv canary");
}

/// ghost lock state (only meaningful under Kani, where the lock stub counts; natively both are 0)
#[cfg(kani)]
pub(crate) fn lock_counts() -> (isize, isize) {
    unsafe { (vsync::G_READERS, vsync::G_WRITERS) }
}
#[cfg(not(kani))]
pub(crate) fn lock_counts() -> (isize, isize) {
    (0, 0)
}
