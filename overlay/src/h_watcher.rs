//! Harnesses hosted in `crate::hot_reloading::watcher`. Overlay only.
#![allow(dead_code, unused_imports, unused_variables)]
use super::*;
use crate::amv::{cover, nd};
use notify::event::{AccessKind, CreateKind, DataChange, MetadataKind, ModifyKind, RemoveKind, RenameMode};
use notify::EventKind;

#[path = "slice_kind_table.rs"]
mod slice;

/// what the property asks for: 0 nothing, 1 the entry itself, 2 the entry and its parent directory
fn expected(kind: &EventKind) -> u8 {
    match kind {
        EventKind::Create(_) | EventKind::Remove(_) | EventKind::Modify(ModifyKind::Name(_)) => 2,
        EventKind::Modify(_) | EventKind::Any => 1,
        EventKind::Access(_) | EventKind::Other => 0,
    }
}
fn kind(sel: u8) -> EventKind {
    match sel {
        0 => EventKind::Any,
        1 => EventKind::Access(AccessKind::Any),
        2 => EventKind::Create(CreateKind::File),
        3 => EventKind::Create(CreateKind::Folder),
        4 => EventKind::Create(CreateKind::Any),
        5 => EventKind::Modify(ModifyKind::Any),
        6 => EventKind::Modify(ModifyKind::Data(DataChange::Content)),
        7 => EventKind::Modify(ModifyKind::Metadata(MetadataKind::Any)),
        8 => EventKind::Modify(ModifyKind::Name(RenameMode::From)),
        9 => EventKind::Modify(ModifyKind::Name(RenameMode::To)),
        10 => EventKind::Modify(ModifyKind::Name(RenameMode::Both)),
        11 => EventKind::Modify(ModifyKind::Name(RenameMode::Any)),
        12 => EventKind::Modify(ModifyKind::Other),
        13 => EventKind::Remove(RemoveKind::File),
        14 => EventKind::Remove(RemoveKind::Folder),
        15 => EventKind::Remove(RemoveKind::Any),
        _ => EventKind::Other,
    }
}
/// C12.K1 — the event-kind table names the entry (and its parent for creations, renames and deletions)
fn kind_table(sel: u8) {
    let k = kind(sel);
    let want = expected(&k);
    let path = std::path::PathBuf::from("/r/d/a.x");
    let r = slice::amv_kind_table(slice::SliceEvent { kind: k }, path);
    match r {
        None => assert!(want == 0, "C12 a create / modify / rename / delete notification must produce events"),
        Some(v) => {
            assert!(want != 0, "C12 access and unknown notifications produce no event");
            assert!(v.len() == want as usize, "C12 a notification names the entry itself and, for creations, renames and deletions, also its parent directory (and nothing else)");
            assert!(v[0].as_os_str() == "/r/d/a.x", "C12 the entry whose path it is comes first");
            if want == 2 {
                assert!(v[1].as_os_str() == "/r/d", "C12 the parent directory is named for creations, renames and deletions");
            }
            std::mem::forget(v);
        }
    }
}
macro_rules! instances {
    ($( $name:ident => $body:expr; )*) => { $(
        #[kani::proof]
        #[kani::unwind(12)]
        pub(crate) fn $name() { $body }
    )* };
}
instances! {
    c12_k1_any => kind_table(0);
    c12_k1_access => kind_table(1);
    c12_k1_create_file => kind_table(2);
    c12_k1_create_folder => kind_table(3);
    c12_k1_create_any => kind_table(4);
    c12_k1_modify_any => kind_table(5);
    c12_k1_modify_data => kind_table(6);
    c12_k1_modify_meta => kind_table(7);
    c12_k1_rename_from => kind_table(8);
    c12_k1_rename_to => kind_table(9);
    c12_k1_rename_both => kind_table(10);
    c12_k1_rename_any => kind_table(11);
    c12_k1_modify_other => kind_table(12);
    c12_k1_remove_file => kind_table(13);
    c12_k1_remove_folder => kind_table(14);
    c12_k1_remove_any => kind_table(15);
    c12_k1_other => kind_table(16);
}
