//! Harnesses hosted in `crate::hot_reloading::watcher`. Overlay only.
#![allow(dead_code, unused_imports, unused_variables)]
use super::*;
use crate::amv::{cover, nd};
use notify::event::{AccessKind, CreateKind, DataChange, MetadataKind, ModifyKind, RemoveKind, RenameMode};
use notify::EventKind;

#[path = "slice_kind_table.rs"]
mod slice;

/// what the property asks for: 0 nothing, 1 the entry itself, 2 the entry and its parent directory
fn expected(kind: &EventKind) -> u8 {
    match kind {
        EventKind::Create(_) | EventKind::Remove(_) | EventKind::Modify(ModifyKind::Name(_)) => 2,
        EventKind::Modify(_) | EventKind::Any => 1,
        EventKind::Access(_) | EventKind::Other => 0,
    }
}
fn kind(sel: u8) -> EventKind {
    match sel {
        0 => EventKind::Any,
        1 => EventKind::Access(AccessKind::Any),
        2 => EventKind::Create(CreateKind::File),
        3 => EventKind::Create(CreateKind::Folder),
        4 => EventKind::Create(CreateKind::Any),
        5 => EventKind::Modify(ModifyKind::Any),
        6 => EventKind::Modify(ModifyKind::Data(DataChange::Content)),
        7 => EventKind::Modify(ModifyKind::Metadata(MetadataKind::Any)),
        8 => EventKind::Modify(ModifyKind::Name(RenameMode::From)),
        9 => EventKind::Modify(ModifyKind::Name(RenameMode::To)),
        10 => EventKind::Modify(ModifyKind::Name(RenameMode::Both)),
        11 => EventKind::Modify(ModifyKind::Name(RenameMode::Any)),
        12 => EventKind::Modify(ModifyKind::Other),
        13 => EventKind::Remove(RemoveKind::File),
        14 => EventKind::Remove(RemoveKind::Folder),
        15 => EventKind::Remove(RemoveKind::Any),
        _ => EventKind::Other,
    }
}
/// C12.K1 — the event-kind table names the entry (and its parent for creations, renames and deletions)
fn kind_table(sel: u8) {
    let k = kind(sel);
    let want = expected(&k);
    let path = std::path::PathBuf::from("/r/d/a.x");
    let r = slice::amv_kind_table(slice::SliceEvent { kind: k }, path);
    match r {
        None => assert!(want == 0, "C12 a create / modify / rename / delete notification must produce events"),
        Some(v) => {
            assert!(want != 0, "C12 access and unknown notifications produce no event");
            assert!(v.len() == want as usize, "C12 a notification names the entry itself and, for creations, renames and deletions, also its parent directory (and nothing else)");
            assert!(v[0].as_os_str() == "/r/d/a.x", "C12 the entry whose path it is comes first");
            if want == 2 {
                assert!(v[1].as_os_str() == "/r/d", "C12 the parent directory is named for creations, renames and deletions");
            }
            std::mem::forget(v);
        }
    }
}
macro_rules! instances {
    ($( $name:ident => $body:expr; )*) => { $(
        #[kani::proof]
        #[kani::unwind(12)]
        pub(crate) fn $name() { $body }
    )* };
}
instances! {
    c12_k1_any => kind_table(0);
    c12_k1_access => kind_table(1);
    c12_k1_create_file => kind_table(2);
    c12_k1_create_folder => kind_table(3);
    c12_k1_create_any => kind_table(4);
    c12_k1_modify_any => kind_table(5);
    c12_k1_modify_data => kind_table(6);
    c12_k1_modify_meta => kind_table(7);
    c12_k1_rename_from => kind_table(8);
    c12_k1_rename_to => kind_table(9);
    c12_k1_rename_both => kind_table(10);
    c12_k1_rename_any => kind_table(11);
    c12_k1_modify_other => kind_table(12);
    c12_k1_remove_file => kind_table(13);
    c12_k1_remove_folder => kind_table(14);
    c12_k1_remove_any => kind_table(15);
    c12_k1_other => kind_table(16);
}

// ---- id_of_path on real std::path parsing (thorough tier only: CBMC needs many minutes per call) ---------------------
fn is_dir_false(_p: &std::path::Path) -> bool {
    false
}
/// two consecutive calls sharing one IdBuilder (as the event handler does): an entry that is not expressible as an id
/// (a '.' in its stem) produces no event and must not leak segments into the next id
#[kani::proof]
#[kani::unwind(12)]
#[kani::stub(std::path::Path::is_dir, is_dir_false)]
pub(crate) fn c12_k4_id_of_path_carry_over() {
    let mut ib = IdBuilder::default();
    let root = std::path::Path::new("/r");
    let first = id_of_path(&mut ib, root, std::path::Path::new("/r/d/a.b.x"));
    assert!(first.is_none(), "C12 a path not expressible as an id produces no event");
    match id_of_path(&mut ib, root, std::path::Path::new("/r/d/c.x")) {
        Some(OwnedDirEntry::File(id, ext)) => assert!(&*id == "d.c" && &*ext == "x", "C12 an event names exactly the entry whose path_of is that path (same id, same extension), whatever was processed before"),
        _ => assert!(false, "C12 a valid file under the root produces a file event"),
    }
}
