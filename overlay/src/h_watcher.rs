//! Harnesses hosted in `crate::hot_reloading::watcher`. Overlay only.
#![allow(dead_code, unused_imports, unused_variables)]
use super::*;
use crate::amv::{cover, nd};
use notify::event::{AccessKind, CreateKind, DataChange, MetadataKind, ModifyKind, RemoveKind, RenameMode};
use notify::EventKind;

#[path = "slice_kind_table.rs"]
mod slice;

/// what the property asks for: 0 nothing, 1 the entry itself, 2 the entry and its parent directory
fn expected(kind: &EventKind) -> u8 {
    match kind {
        EventKind::Create(_) | EventKind::Remove(_) | EventKind::Modify(ModifyKind::Name(_)) => 2,
        EventKind::Modify(_) | EventKind::Any => 1,
        EventKind::Access(_) | EventKind::Other => 0,
    }
}
fn kind(sel: u8) -> EventKind {
    match sel {
        0 => EventKind::Any,
        1 => EventKind::Access(AccessKind::Any),
        2 => EventKind::Create(CreateKind::File),
        3 => EventKind::Create(CreateKind::Folder),
        4 => EventKind::Create(CreateKind::Any),
        5 => EventKind::Modify(ModifyKind::Any),
        6 => EventKind::Modify(ModifyKind::Data(DataChange::Content)),
        7 => EventKind::Modify(ModifyKind::Metadata(MetadataKind::Any)),
        8 => EventKind::Modify(ModifyKind::Name(RenameMode::From)),
        9 => EventKind::Modify(ModifyKind::Name(RenameMode::To)),
        10 => EventKind::Modify(ModifyKind::Name(RenameMode::Both)),
        11 => EventKind::Modify(ModifyKind::Name(RenameMode::Any)),
        12 => EventKind::Modify(ModifyKind::Other),
        13 => EventKind::Remove(RemoveKind::File),
        14 => EventKind::Remove(RemoveKind::Folder),
        15 => EventKind::Remove(RemoveKind::Any),
        _ => EventKind::Other,
    }
}
/// C12.K1 — the event-kind table names the entry (and its parent for creations, renames and deletions)
fn kind_table(sel: u8) {
    let k = kind(sel);
    let want = expected(&k);
    let path = std::path::PathBuf::from("/r/d/a.x");
    let r = slice::amv_kind_table(slice::SliceEvent { kind: k }, path);
    match r {
        None => assert!(want == 0, "C12 a create / modify / rename / delete notification must produce events"),
        Some(v) => {
            assert!(want != 0, "C12 access and unknown notifications produce no event");
            assert!(v.len() == want as usize, "C12 a notification names the entry itself and, for creations, renames and deletions, also its parent directory (and nothing else)");
            assert!(v[0].as_os_str() == "/r/d/a.x", "C12 the entry whose path it is comes first");
            if want == 2 {
                assert!(v[1].as_os_str() == "/r/d", "C12 the parent directory is named for creations, renames and deletions");
            }
            std::mem::forget(v);
        }
    }
}
macro_rules! instances {
    ($( $name:ident => $body:expr; )*) => { $(
        #[kani::proof]
        #[kani::unwind(12)]
        pub(crate) fn $name() { $body }
    )* };
}
instances! {
    c12_k1_any => kind_table(0);
    c12_k1_access => kind_table(1);
    c12_k1_create_file => kind_table(2);
    c12_k1_create_folder => kind_table(3);
    c12_k1_create_any => kind_table(4);
    c12_k1_modify_any => kind_table(5);
    c12_k1_modify_data => kind_table(6);
    c12_k1_modify_meta => kind_table(7);
    c12_k1_rename_from => kind_table(8);
    c12_k1_rename_to => kind_table(9);
    c12_k1_rename_both => kind_table(10);
    c12_k1_rename_any => kind_table(11);
    c12_k1_modify_other => kind_table(12);
    c12_k1_remove_file => kind_table(13);
    c12_k1_remove_folder => kind_table(14);
    c12_k1_remove_any => kind_table(15);
    c12_k1_other => kind_table(16);
}

// ---- id_of_path on real std::path parsing; `Path::is_dir` (a syscall) is replaced by the kind the harness fixes ----------
static mut IS_DIR: bool = false;
fn is_dir_stub(_p: &std::path::Path) -> bool {
    unsafe { IS_DIR }
}
macro_rules! path_instances {
    ($( $name:ident => $body:expr; )*) => { $(
        #[kani::proof]
        #[kani::unwind(12)]
        #[kani::stub(std::path::Path::is_dir, is_dir_stub)]
        pub(crate) fn $name() { $body }
    )* };
}
/// expected event for a reported path (None = no event)
fn id_case(path: &str, is_dir: bool, want: Option<(&str, Option<&str>)>) {
    unsafe { IS_DIR = is_dir };
    let mut ib = IdBuilder::default();
    let r = id_of_path(&mut ib, std::path::Path::new("/r"), std::path::Path::new(path));
    match (want, r) {
        (None, None) => {}
        (Some((id, Some(ext))), Some(OwnedDirEntry::File(i, e))) => assert!(&*i == id && &*e == ext, "C12 a file notification names exactly the entry whose path_of is that path (same id, same extension)"),
        (Some((id, None)), Some(OwnedDirEntry::Directory(i))) => assert!(&*i == id, "C12 a directory notification names the directory with that id"),
        (_, r) => {
            std::mem::forget(r);
            assert!(false, "C12 wrong kind of event / event for a path that has no id / no event for a valid entry");
        }
    }
}
path_instances! {
    c12_k4_id_top_file => id_case("/r/a.x", false, Some(("a", Some("x"))));
    c12_k4_id_nested_file => id_case("/r/d/e/a.x", false, Some(("d.e.a", Some("x"))));
    c12_k4_id_no_extension => id_case("/r/d/a", false, Some(("d.a", Some(""))));
    c12_k4_id_directory => id_case("/r/d/e", true, Some(("d.e", None)));
    c12_k4_id_root => id_case("/r", true, Some(("", None)));
    c12_k4_id_outside_root => id_case("/q/a.x", false, None);
    c12_k4_id_dotted_stem => id_case("/r/d/a.b.x", false, None);
    c12_k4_id_dotted_dir => id_case("/r/v1.2/a.x", false, None);
    c12_k4_id_parent_component => id_case("/r/d/../a.x", false, Some(("a", Some("x"))));
    c12_k4_id_cur_component => id_case("/r/./d/a.x", false, Some(("d.a", Some("x"))));
}

/// two consecutive calls sharing one IdBuilder (as the event handler does): an entry that is not expressible as an id
/// (a '.' in its stem) produces no event and must not leak segments into the next id
fn carry_over() {
    unsafe { IS_DIR = false };
    let mut ib = IdBuilder::default();
    let root = std::path::Path::new("/r");
    let first = id_of_path(&mut ib, root, std::path::Path::new("/r/d/a.b.x"));
    assert!(first.is_none(), "C12 a path not expressible as an id produces no event");
    match id_of_path(&mut ib, root, std::path::Path::new("/r/d/c.x")) {
        Some(OwnedDirEntry::File(id, ext)) => assert!(&*id == "d.c" && &*ext == "x", "C12 an event names exactly the entry whose path_of is that path (same id, same extension), whatever was processed before"),
        _ => assert!(false, "C12 a valid file under the root produces a file event"),
    }
}
/// id_of_path is the inverse of path_of_entry: forward map an entry to its path, map the path back
fn round_trip(file: bool, nested: bool) {
    unsafe { IS_DIR = !file };
    let id = if nested { "d.e.a" } else { "a" };
    let entry = if file { crate::source::DirEntry::File(id, "x") } else { crate::source::DirEntry::Directory(id) };
    let root = std::path::Path::new("/r");
    let p = crate::utils::path_of_entry(root, entry);
    let want: &str = match (file, nested) { (true, true) => "/r/d/e/a.x", (true, false) => "/r/a.x", (false, true) => "/r/d/e/a", (false, false) => "/r/a" };
    assert!(p.as_os_str() == want, "C04/C12 path_of maps an id to the path under the root (segments -> directories, extension appended)");
    let mut ib = IdBuilder::default();
    match id_of_path(&mut ib, root, &p) {
        Some(o) => assert!(o.as_dir_entry() == entry, "C12 ids and paths round-trip: id_of_path(path_of(entry)) = entry"),
        None => assert!(false, "C12 the path of a valid entry always maps back to an event"),
    }
}
path_instances! {
    c12_k4_carry_over => carry_over();
    c12_k5_round_trip_file => round_trip(true, false);
    c12_k5_round_trip_nested_file => round_trip(true, true);
    c12_k5_round_trip_dir => round_trip(false, false);
    c12_k5_round_trip_nested_dir => round_trip(false, true);
}
/// forward map alone for a file (PathBuf::set_extension is the expensive part)
fn path_of_file() {
    let p = crate::utils::path_of_entry(std::path::Path::new("/r"), crate::source::DirEntry::File("d.a", "x"));
    assert!(p.as_os_str() == "/r/d/a.x", "C04/C12 path_of maps (id, ext) to root/segments.ext");
}
path_instances! {
    c12_k5_path_of_file => path_of_file();
}

/// C04.K3 — path_of_entry for directory entries: id segments become nested directories under the root; "" is the root
fn path_of_dirs() {
    let root = std::path::Path::new("/r");
    let cases: [(&str, &str); 3] = [("", "/r"), ("a", "/r/a"), ("d.e", "/r/d/e")];
    let mut i = 0;
    while i < 3 {
        let p = crate::utils::path_of_entry(root, crate::source::DirEntry::Directory(cases[i].0));
        assert!(p.as_path() == std::path::Path::new(cases[i].1), "C04 the path of a directory id is root/segments (the empty id is the root itself)");
        i += 1;
    }
}
path_instances! {
    c04_k3_path_of_dirs => path_of_dirs();
}
