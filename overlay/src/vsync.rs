//! Contract stub of std::sync::{RwLock, Mutex, Condvar}: sequential lock-state machines.
#![allow(dead_code)]
use std::cell::{Cell, UnsafeCell};
use std::ops::{Deref, DerefMut};
pub use std::sync::{LockResult, PoisonError};

pub struct RwLock<T: ?Sized> { state: Cell<isize>, data: UnsafeCell<T> }
unsafe impl<T: ?Sized + Send> Send for RwLock<T> {}
unsafe impl<T: ?Sized + Send + Sync> Sync for RwLock<T> {}
pub struct RwLockReadGuard<'a, T: ?Sized> { lock: &'a RwLock<T> }
pub struct RwLockWriteGuard<'a, T: ?Sized> { lock: &'a RwLock<T> }
impl<T> RwLock<T> {
    pub fn new(t: T) -> Self { RwLock { state: Cell::new(0), data: UnsafeCell::new(t) } }
    pub fn into_inner(self) -> LockResult<T> { Ok(self.data.into_inner()) }
}
impl<T: ?Sized> RwLock<T> {
    pub fn read(&self) -> LockResult<RwLockReadGuard<'_, T>> { assert!(self.state.get() >= 0, "read() would block forever (write-held)"); self.state.set(self.state.get() + 1); unsafe { G_READERS += 1; } Ok(RwLockReadGuard { lock: self }) }
    pub fn write(&self) -> LockResult<RwLockWriteGuard<'_, T>> { assert!(self.state.get() == 0, "write() would block forever (held)"); self.state.set(-1); unsafe { G_WRITERS += 1; } Ok(RwLockWriteGuard { lock: self }) }
    pub fn get_mut(&mut self) -> LockResult<&mut T> { Ok(self.data.get_mut()) }
    pub fn readers(&self) -> isize { self.state.get() }
    // rest of the std API that a realistic edit may use (so that it still compiles against the stub)
    pub fn try_read(&self) -> Result<RwLockReadGuard<'_, T>, std::sync::TryLockError<RwLockReadGuard<'_, T>>> { if self.state.get() >= 0 { match self.read() { Ok(g) => Ok(g), Err(_) => unreachable!() } } else { Err(std::sync::TryLockError::WouldBlock) } }
    pub fn try_write(&self) -> Result<RwLockWriteGuard<'_, T>, std::sync::TryLockError<RwLockWriteGuard<'_, T>>> { if self.state.get() == 0 { match self.write() { Ok(g) => Ok(g), Err(_) => unreachable!() } } else { Err(std::sync::TryLockError::WouldBlock) } }
    pub fn is_poisoned(&self) -> bool { false }
}
impl<T: ?Sized> Deref for RwLockReadGuard<'_, T> { type Target = T; fn deref(&self) -> &T { unsafe { &*self.lock.data.get() } } }
impl<T: ?Sized> Deref for RwLockWriteGuard<'_, T> { type Target = T; fn deref(&self) -> &T { unsafe { &*self.lock.data.get() } } }
impl<T: ?Sized> DerefMut for RwLockWriteGuard<'_, T> { fn deref_mut(&mut self) -> &mut T { unsafe { &mut *self.lock.data.get() } } }
impl<T: ?Sized> Drop for RwLockReadGuard<'_, T> { fn drop(&mut self) { self.lock.state.set(self.lock.state.get() - 1); unsafe { G_READERS -= 1; } } }
impl<T: ?Sized> Drop for RwLockWriteGuard<'_, T> { fn drop(&mut self) { self.lock.state.set(0); unsafe { G_WRITERS -= 1; } } }

pub struct Mutex<T: ?Sized> { held: Cell<bool>, data: UnsafeCell<T> }
unsafe impl<T: ?Sized + Send> Send for Mutex<T> {}
unsafe impl<T: ?Sized + Send> Sync for Mutex<T> {}
impl<T: Default> Default for Mutex<T> { fn default() -> Self { Mutex::new(T::default()) } }
pub struct MutexGuard<'a, T: ?Sized> { lock: &'a Mutex<T> }
impl<T> Mutex<T> { pub fn new(t: T) -> Self { Mutex { held: Cell::new(false), data: UnsafeCell::new(t) } } }
impl<T: ?Sized> Mutex<T> {
    pub fn try_lock(&self) -> Result<MutexGuard<'_, T>, std::sync::TryLockError<MutexGuard<'_, T>>> { if !self.held.get() { match self.lock() { Ok(g) => Ok(g), Err(_) => unreachable!() } } else { Err(std::sync::TryLockError::WouldBlock) } }
    pub fn get_mut(&mut self) -> LockResult<&mut T> { Ok(self.data.get_mut()) }
    pub fn is_poisoned(&self) -> bool { false }
}
impl<T: ?Sized> Mutex<T> { pub fn lock(&self) -> LockResult<MutexGuard<'_, T>> { assert!(!self.held.get()); self.held.set(true); Ok(MutexGuard { lock: self }) } }
impl<T: ?Sized> Deref for MutexGuard<'_, T> { type Target = T; fn deref(&self) -> &T { unsafe { &*self.lock.data.get() } } }
impl<T: ?Sized> DerefMut for MutexGuard<'_, T> { fn deref_mut(&mut self) -> &mut T { unsafe { &mut *self.lock.data.get() } } }
impl<T: ?Sized> Drop for MutexGuard<'_, T> { fn drop(&mut self) { self.lock.held.set(false); } }

#[derive(Default)]
pub struct Condvar { pub notifies: Cell<usize> }
unsafe impl Sync for Condvar {}
impl Condvar {
    pub fn new() -> Self { Condvar { notifies: Cell::new(0) } }
    /// wakes ONE waiter: recorded separately — a monitor whose waiters wait for different conditions needs notify_all
    pub fn notify_one(&self) {
        unsafe { NOTIFY_ONE_COUNT += 1; }
    }
    pub fn notify_all(&self) { self.notifies.set(self.notifies.get() + 1); unsafe { NOTIFY_COUNT += 1; } }
    pub fn wait<'a, T>(&self, _g: MutexGuard<'a, T>) -> LockResult<MutexGuard<'a, T>> { panic!("wait() would block: no other thread in a sequential harness") }
}

pub static mut NOTIFY_COUNT: usize = 0;
pub static mut NOTIFY_ONE_COUNT: usize = 0;

// ghost lock state of the whole harness (entry-level harnesses have exactly one RwLock in play)
pub static mut G_READERS: isize = 0;
pub static mut G_WRITERS: isize = 0;
