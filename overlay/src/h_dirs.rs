//! Harnesses hosted in `crate::dirs`: Directory / RecursiveDirectory over concrete listings (bounded-exhaustive
//! enumeration; a symbolic listing makes CBMC's symbolic execution explode). Overlay only.
#![allow(dead_code, unused_imports, unused_variables)]
use super::*;
use crate::amv::common::{tid_eq, BadErr, Mk, L1};
use crate::amv::{cover, nd};
use crate::anycache::{AssetMap as AssetMapT, CacheExt, RawCache};
use crate::entry::{CacheEntry, UntypedHandle};
use crate::source::FileContent;
use std::any::TypeId;
use std::cell::{Cell, UnsafeCell};

// ---- association-list contract map (the alphabet of Directory<T> types is open) -------------------------------------
const ACAP: usize = 6;
pub(crate) struct AssocMap {
    slots: UnsafeCell<[Option<CacheEntry>; ACAP]>,
    n: Cell<usize>,
}
impl AssocMap {
    fn new() -> Self {
        AssocMap { slots: UnsafeCell::new([None, None, None, None, None, None]), n: Cell::new(0) }
    }
    fn find(&self, id: &str, t: TypeId) -> Option<usize> {
        let s = unsafe { &*self.slots.get() };
        let mut i = 0;
        while i < self.n.get() {
            if let Some(e) = &s[i] {
                if tid_eq(e.type_id(), t) && &**e.id() == id {
                    return Some(i);
                }
            }
            i += 1;
        }
        None
    }
}
impl AssetMapT for AssocMap {
    fn get(&self, id: &str, t: TypeId) -> Option<&UntypedHandle> {
        let i = self.find(id, t)?;
        match unsafe { &(*self.slots.get())[i] } {
            Some(e) => Some(unsafe { e.inner().extend_lifetime() }),
            None => None,
        }
    }
    fn insert(&self, entry: CacheEntry) -> &UntypedHandle {
        let i = match self.find(entry.id(), entry.type_id()) {
            Some(i) => i,
            None => {
                let i = self.n.get();
                assert!(i < ACAP, "AssocMap capacity bound exceeded");
                unsafe { std::ptr::write(&mut (*self.slots.get())[i], Some(entry)) };
                self.n.set(i + 1);
                i
            }
        };
        match unsafe { &(*self.slots.get())[i] } {
            Some(e) => unsafe { e.inner().extend_lifetime() },
            None => unreachable!(),
        }
    }
    fn contains_key(&self, id: &str, t: TypeId) -> bool {
        self.find(id, t).is_some()
    }
}

// ---- source: directory "d" with a concrete listing, optional child directory "d.s" -----------------------------------
/// entry shapes: 0 File(d.p,x)  1 File(d.q,x)  2 File(d.p,y)  3 File(d.p,"")  4 Directory(d.s)
pub(crate) struct DirSrc {
    own: [u8; 3],
    n_own: usize,
    /// child listing shapes: 0 File(d.s.r,x)  1 File(d.s.r,y)
    child: [u8; 2],
    n_child: usize,
    child_readable: bool,
    file_reads: Cell<u8>,
}
impl Source for DirSrc {
    fn read(&self, id: &str, ext: &str) -> io::Result<FileContent> {
        self.file_reads.set(self.file_reads.get() + 1);
        if ext == "x" && (id == "d.p" || id == "d.q") {
            Ok(FileContent::Slice(b"7"))
        } else {
            Err(io::ErrorKind::NotFound.into())
        }
    }
    fn read_dir(&self, id: &str, f: &mut dyn FnMut(DirEntry)) -> io::Result<()> {
        if id == "d" {
            let mut i = 0;
            while i < self.n_own {
                match self.own[i] {
                    0 => f(DirEntry::File("d.p", "x")),
                    1 => f(DirEntry::File("d.q", "x")),
                    2 => f(DirEntry::File("d.p", "y")),
                    3 => f(DirEntry::File("d.p", "")),
                    5 => f(DirEntry::Directory("d.t")),
                    _ => f(DirEntry::Directory("d.s")),
                }
                i += 1;
            }
            Ok(())
        } else if id == "d.s" && self.child_readable {
            let mut i = 0;
            while i < self.n_child {
                match self.child[i] {
                    0 => f(DirEntry::File("d.s.r", "x")),
                    _ => f(DirEntry::File("d.s.r", "y")),
                }
                i += 1;
            }
            Ok(())
        } else if id == "d.t" {
            // a second sub-directory, always readable, holding one matching file
            f(DirEntry::File("d.t.r", "x"));
            Ok(())
        } else {
            Err(io::ErrorKind::PermissionDenied.into())
        }
    }
    fn exists(&self, _e: DirEntry) -> bool {
        false
    }
}
pub(crate) struct DC {
    map: AssocMap,
    src: DirSrc,
}
impl RawCache for DC {
    type AssetMap = AssocMap;
    type Source = DirSrc;
    fn assets(&self) -> &AssocMap {
        &self.map
    }
    fn get_source(&self) -> &DirSrc {
        &self.src
    }
    #[cfg(feature = "hot-reloading")]
    fn reloader(&self) -> Option<&crate::hot_reloading::HotReloader> {
        None
    }
}

// ---- element types with the three extension lists of the enumeration ---------------------------------------------------
macro_rules! elem {
    ($n:ident, $exts:expr) => {
        pub(crate) struct $n(pub u8);
        impl Mk for $n {
            fn mk(b: u8) -> Self {
                $n(b)
            }
            fn val(&self) -> u8 {
                self.0
            }
        }
        impl Asset for $n {
            const EXTENSIONS: &'static [&'static str] = $exts;
            type Loader = L1;
        }
    };
}
elem!(TX, &["x"]);
elem!(TXY, &["x", "y"]);
elem!(TE, &[""]);

fn ext_of(shape: u8) -> Option<(&'static str, &'static str)> {
    match shape {
        0 => Some(("d.p", "x")),
        1 => Some(("d.q", "x")),
        2 => Some(("d.p", "y")),
        3 => Some(("d.p", "")),
        _ => None,
    }
}
/// expected ids computed from the property text: files directly inside d carrying one of T's extensions, sorted, deduplicated
fn expected<T: Asset>(own: &[u8]) -> (bool, bool) {
    let (mut p, mut q) = (false, false);
    let mut i = 0;
    while i < own.len() {
        if let Some((id, ext)) = ext_of(own[i]) {
            let mut k = 0;
            while k < T::EXTENSIONS.len() {
                if T::EXTENSIONS[k] == ext {
                    if id == "d.p" {
                        p = true;
                    } else {
                        q = true;
                    }
                }
                k += 1;
            }
        }
        i += 1;
    }
    (p, q)
}
fn check_ids<'a>(mut it: impl Iterator<Item = &'a SharedString>, p: bool, q: bool, extra: &[&str]) {
    if p {
        match it.next() {
            Some(s) => assert!(&**s == "d.p", "C11 ids are listed sorted, without duplicates"),
            None => assert!(false, "C11 a matching file is missing from the listing"),
        }
    }
    if q {
        match it.next() {
            Some(s) => assert!(&**s == "d.q", "C11 ids are listed sorted, without duplicates"),
            None => assert!(false, "C11 a matching file is missing from the listing"),
        }
    }
    let mut i = 0;
    while i < extra.len() {
        match it.next() {
            Some(s) => assert!(&**s == extra[i], "C11 recursive listing = own ids then the readable sub-directories' ids"),
            None => assert!(false, "C11 an id of a readable sub-directory is missing"),
        }
        i += 1;
    }
    assert!(it.next().is_none(), "C11 exactly the matching ids are listed (no duplicate, no foreign extension, no directory)");
}
fn dc(own: &[u8], child: &[u8], child_readable: bool) -> DC {
    let mut o = [0u8; 3];
    let mut i = 0;
    while i < own.len() {
        o[i] = own[i];
        i += 1;
    }
    let mut c = [0u8; 2];
    let mut i = 0;
    while i < child.len() {
        c[i] = child[i];
        i += 1;
    }
    DC { map: AssocMap::new(), src: DirSrc { own: o, n_own: own.len(), child: c, n_child: child.len(), child_readable, file_reads: Cell::new(0) } }
}

/// C11.K1/K2 — Directory::load on one concrete listing
fn dir_case<T: Asset>(own: &[u8]) {
    let c = dc(own, &[], false);
    let (p, q) = expected::<T>(own);
    match c._load::<Directory<T>>("d") {
        Ok(h) => {
            let g = h.read();
            assert!(g.ids().len() == (p as usize) + (q as usize), "C11 exactly the matching ids are listed");
            check_ids(g.ids(), p, q, &[]);
        }
        Err(e) => {
            std::mem::forget(e);
            assert!(false, "C11 an existing directory must load");
        }
    }
    assert!(c.src.file_reads.get() == 0, "C11 listing a directory loads no asset");
    std::mem::forget(c);
}
/// all listings `prefix ++ [s]` for s in the 5 shapes (or just `prefix` when `vary` is false)
fn dir_family<T: Asset>(prefix: &[u8], vary: bool) {
    if !vary {
        dir_case::<T>(prefix);
        return;
    }
    let mut l = [0u8; 3];
    let mut i = 0;
    while i < prefix.len() {
        l[i] = prefix[i];
        i += 1;
    }
    let mut s = 0u8;
    while s < 5 {
        l[prefix.len()] = s;
        dir_case::<T>(&l[..prefix.len() + 1]);
        s += 1;
    }
}
/// a missing directory is an error
fn dir_missing<T: Asset>() {
    let c = dc(&[], &[], false);
    match c._load::<Directory<T>>("nope") {
        Ok(_) => assert!(false, "C11 a missing directory is an error"),
        Err(e) => {
            assert!(&**e.id() == "nope");
            std::mem::forget(e);
        }
    }
    match c._load::<RecursiveDirectory<T>>("nope") {
        Ok(_) => assert!(false, "C11 a missing directory is an error (recursive)"),
        Err(e) => std::mem::forget(e),
    }
    std::mem::forget(c);
}

macro_rules! instances {
    ($( $name:ident => $body:expr; )*) => { $(
        #[cfg_attr(kani, kani::proof)]
        #[cfg_attr(kani, kani::unwind(8))]
        #[cfg_attr(kani, kani::stub(crate::error::ErrorKind::or, crate::amv::common::or_contract))]
        pub(crate) fn $name() { $body }
    )* };
}
instances! {
    c11_k2_tx_len0 => dir_family::<TX>(&[], false);
    c11_k2_tx_len1 => dir_family::<TX>(&[], true);
    c11_k2_tx_len2_0 => dir_family::<TX>(&[0], true);
    c11_k2_tx_len2_1 => dir_family::<TX>(&[1], true);
    c11_k2_tx_len2_2 => dir_family::<TX>(&[2], true);
    c11_k2_tx_len2_3 => dir_family::<TX>(&[3], true);
    c11_k2_tx_len2_4 => dir_family::<TX>(&[4], true);
    c11_k2_txy_len1 => dir_family::<TXY>(&[], true);
    c11_k2_txy_len2_0 => dir_family::<TXY>(&[0], true);
    c11_k2_txy_len2_1 => dir_family::<TXY>(&[1], true);
    c11_k2_txy_len2_2 => dir_family::<TXY>(&[2], true);
    c11_k2_txy_len2_3 => dir_family::<TXY>(&[3], true);
    c11_k2_txy_len2_4 => dir_family::<TXY>(&[4], true);
    c11_k2_te_len1 => dir_family::<TE>(&[], true);
    c11_k2_te_len2_0 => dir_family::<TE>(&[0], true);
    c11_k2_te_len2_1 => dir_family::<TE>(&[1], true);
    c11_k2_te_len2_2 => dir_family::<TE>(&[2], true);
    c11_k2_te_len2_3 => dir_family::<TE>(&[3], true);
    c11_k2_te_len2_4 => dir_family::<TE>(&[4], true);
}
instances! {
    c11_k2_txy_len3_split_dup => dir_case::<TXY>(&[0, 1, 2]);
    c11_k2_tx_len3_split_dup => dir_case::<TX>(&[0, 1, 0]);
}
instances! {
    c11_k2e_missing_tx => dir_missing::<TX>();
}
// length 3 (thorough): prefix of two shapes x 5
instances! {
    c11_k2t_tx_len3_10 => dir_family::<TX>(&[1, 0], true);
    c11_k2t_tx_len3_01 => dir_family::<TX>(&[0, 1], true);
    c11_k2t_tx_len3_00 => dir_family::<TX>(&[0, 0], true);
    c11_k2t_tx_len3_24 => dir_family::<TX>(&[2, 4], true);
    c11_k2t_txy_len3_12 => dir_family::<TXY>(&[1, 2], true);
    c11_k2t_txy_len3_20 => dir_family::<TXY>(&[2, 0], true);
    c11_k2t_te_len3_31 => dir_family::<TE>(&[3, 1], true);
}

/// C11.K3 — RecursiveDirectory: own ids, then the ids of every readable sub-directory; an unreadable one is skipped
fn rec_case<T: Asset>(own: &[u8], child: &[u8], child_readable: bool) {
    let c = dc(own, child, child_readable);
    let (p, q) = expected::<T>(own);
    let has_child_dir = {
        let mut h = false;
        let mut i = 0;
        while i < own.len() {
            if own[i] == 4 {
                h = true;
            }
            i += 1;
        }
        h
    };
    // child ids: d.s.r if one of the child entries carries one of T's extensions
    let mut r = false;
    let mut i = 0;
    while i < child.len() {
        let ext = if child[i] == 0 { "x" } else { "y" };
        let mut k = 0;
        while k < T::EXTENSIONS.len() {
            if T::EXTENSIONS[k] == ext {
                r = true;
            }
            k += 1;
        }
        i += 1;
    }
    let want_child = has_child_dir && child_readable && r;
    match c._load::<RecursiveDirectory<T>>("d") {
        Ok(h) => {
            let g = h.read();
            if want_child {
                check_ids(g.ids(), p, q, &["d.s.r"]);
            } else {
                check_ids(g.ids(), p, q, &[]);
            }
        }
        Err(e) => {
            std::mem::forget(e);
            assert!(false, "C11 an unreadable sub-directory is skipped without hiding its siblings; the directory itself loads");
        }
    }
    std::mem::forget(c);
}
instances! {
    c11_k3_rec_flat => rec_case::<TX>(&[1, 0], &[], false);
    c11_k3_rec_child_ok => rec_case::<TX>(&[0, 4], &[0], true);
    c11_k3_rec_child_dup => rec_case::<TXY>(&[4, 1], &[0, 1], true);
    c11_k3_rec_child_other_ext => rec_case::<TX>(&[4, 1], &[1], true);
}
/// an unreadable sub-directory is skipped without hiding the siblings that come after it.
/// NOT registered in obligations.toml: with unwinding bound 8 CBMC did not finish in 50 min, with 5 it ran out of memory
/// (56 GB), the minimal shape with bound 4 did not finish in 50 min either: the skipped child's `Error` is dropped inside
/// the closure and its drop glue is recursive through `dyn Error`. Seed C11-02 is therefore not detected.
fn rec_unreadable_then_readable() {
    let c = dc(&[4, 5, 0], &[0], false); // d.s (unreadable), d.t (readable: d.t.r), file d.p
    match c._load::<RecursiveDirectory<TX>>("d") {
        Ok(h) => {
            let g = h.read();
            check_ids(g.ids(), true, false, &["d.t.r"]);
        }
        Err(e) => {
            std::mem::forget(e);
            assert!(false, "C11 an unreadable sub-directory is skipped; the directory itself loads");
        }
    }
    std::mem::forget(c);
}
#[cfg_attr(kani, kani::proof)]
#[cfg_attr(kani, kani::unwind(5))]
#[cfg_attr(kani, kani::stub(crate::error::ErrorKind::or, crate::amv::common::or_contract))]
pub(crate) fn c11_k3e_rec_unreadable_then_readable() {
    rec_unreadable_then_readable()
}
/// smallest shape of the same obligation (two sub-directories, no own file) with unwinding bound 3
fn rec_unreadable_then_readable_min() {
    let c = dc(&[4, 5], &[], false);
    match c._load::<RecursiveDirectory<TX>>("d") {
        Ok(h) => {
            let g = h.read();
            let mut it = g.ids();
            match it.next() {
                Some(s) => assert!(&**s == "d.t.r", "C11 an unreadable sub-directory is skipped without hiding the siblings that come after it"),
                None => assert!(false, "C11 an unreadable sub-directory is skipped without hiding the siblings that come after it"),
            }
            assert!(it.next().is_none());
        }
        Err(e) => {
            std::mem::forget(e);
            assert!(false, "C11 an unreadable sub-directory is skipped; the directory itself loads");
        }
    }
    std::mem::forget(c);
}
#[cfg_attr(kani, kani::proof)]
#[cfg_attr(kani, kani::unwind(4))]
#[cfg_attr(kani, kani::stub(crate::error::ErrorKind::or, crate::amv::common::or_contract))]
pub(crate) fn c11_k3e_rec_unreadable_then_readable_min() {
    rec_unreadable_then_readable_min()
}

/// C11.K4 — iter loads precisely the listed ids; iter_cached yields precisely the cached ones
fn iter_case() {
    let c = dc(&[1, 0], &[], false);
    {
    let any = c._as_any_cache();
    let h = match c._load::<Directory<TX>>("d") { Ok(h) => h, Err(e) => { std::mem::forget(e); panic!("dir load failed") } };
    let g = h.read();
    assert!(g.iter_cached(any).count() == 0, "C11 iter_cached yields only what is already cached (nothing yet) and loads nothing");
    assert!(c.src.file_reads.get() == 0, "C11 iter_cached does no I/O");
    let _ = any.load::<TX>("d.q");
    let mut n = 0;
    for hc in g.iter_cached(any) {
        assert!(&**hc.id() == "d.q", "C11 iter_cached yields precisely the ids already cached");
        n += 1;
    }
    assert!(n == 1 && c.src.file_reads.get() == 1);
    let mut it = g.iter(any);
    assert!(it.len() == 2);
    match it.next() { Some(Ok(a)) => assert!(&**a.id() == "d.p" && a.read().0 == b'7', "C11 iter loads precisely the listed ids, in order"), _ => assert!(false, "C11 iter must load d.p") }
    match it.next() { Some(Ok(a)) => assert!(&**a.id() == "d.q", "C11 iter loads precisely the listed ids, in order"), _ => assert!(false, "C11 iter must load d.q") }
    assert!(it.next().is_none());
    assert!(c.src.file_reads.get() == 2, "C11 iter loads each listed id once (d.q was cached)");
    }
    std::mem::forget(c);
}
instances! {
    c11_k4_iter => iter_case();
}
