//! Harnesses hosted in `crate::asset`: load_from_source, load_and_record. Overlay only.
#![allow(dead_code, unused_imports, unused_variables)]
use super::*;
use crate::amv::common::*;
use crate::amv::{cover, nd};
use crate::source::{DirEntry, FileContent};
use std::cell::Cell;

macro_rules! instances {
    ($( $name:ident => $body:expr; )*) => { $(
        #[cfg_attr(kani, kani::proof)]
        #[cfg_attr(amv_replay, test)]
        #[cfg_attr(kani, kani::unwind(6))]
        #[cfg_attr(kani, kani::stub(crate::error::ErrorKind::or, crate::amv::common::or_contract))]
        pub(crate) fn $name() { $body }
    )* };
}

// ---- source with one outcome per extension "0","1","2"; counts and orders reads -----------------------------------
pub(crate) struct Src3 {
    o: [O; 3],
    reads: Cell<u8>,
    order_ok: Cell<bool>,
    variant: u8,
}
static GOOD: [[u8; 1]; 3] = [[b'0'], [b'1'], [b'2']];
impl Source for Src3 {
    fn read(&self, id: &str, ext: &str) -> io::Result<FileContent> {
        let i = if ext == "0" { 0 } else if ext == "1" { 1 } else if ext == "2" { 2 } else { return Err(io::ErrorKind::NotFound.into()) };
        // extensions must be tried in declaration order, each at most once
        if self.reads.get() as usize != i || id != "k" {
            self.order_ok.set(false);
        }
        self.reads.set(self.reads.get() + 1);
        match self.o[i] {
            O::NotFound => Err(io::ErrorKind::NotFound.into()),
            O::Denied => Err(io::ErrorKind::PermissionDenied.into()),
            O::Bad => Ok(FileContent::Slice(b"")),
            O::Good => Ok(match self.variant {
                0 => FileContent::Slice(&GOOD[i]),
                1 => FileContent::Buffer(vec![GOOD[i][0]]),
                _ => FileContent::from_owned(GOOD[i]),
            }),
        }
    }
    fn read_dir(&self, _id: &str, _f: &mut dyn FnMut(DirEntry)) -> io::Result<()> {
        Err(io::ErrorKind::NotFound.into())
    }
    fn exists(&self, _e: DirEntry) -> bool {
        false
    }
}
static mut DEFAULT_CALLS: u8 = 0;
static mut DEFAULT_MODE: u8 = 0; // 0: pass the error on, 1: provide a default value
static mut DEFAULT_SAW_CLASS: u8 = 9;
pub(crate) struct TN<const N: usize>(pub u8);
impl<const N: usize> Mk for TN<N> {
    fn mk(b: u8) -> Self {
        TN(b)
    }
    fn val(&self) -> u8 {
        self.0
    }
}
const EXTS: [&str; 3] = ["0", "1", "2"];
impl<const N: usize> Asset for TN<N> {
    const EXTENSIONS: &'static [&'static str] = match N {
        0 => &[],
        1 => &["0"],
        2 => &["0", "1"],
        _ => &["0", "1", "2"],
    };
    type Loader = L1;
    fn default_value(_id: &SharedString, error: BoxedError) -> Result<Self, BoxedError> {
        unsafe {
            DEFAULT_CALLS += 1;
            DEFAULT_SAW_CLASS = LAST_CLASS;
            if DEFAULT_MODE == 1 {
                std::mem::forget(error);
                return Ok(TN(b'd'));
            }
        }
        Err(error)
    }
}

/// a loader that reports undecodable content as a boxed `io::Error` (as stream decoders do): still a DECODING error
pub(crate) struct LIo;
impl<T: Mk> loader::Loader<T> for LIo {
    fn load(content: Cow<[u8]>, _ext: &str) -> Result<T, BoxedError> {
        if content.len() == 1 {
            Ok(T::mk(content[0]))
        } else {
            Err(Box::new(io::Error::from(io::ErrorKind::InvalidData)))
        }
    }
}
pub(crate) struct TI(pub u8);
impl Mk for TI {
    fn mk(b: u8) -> Self {
        TI(b)
    }
    fn val(&self) -> u8 {
        self.0
    }
}
static mut TI_SAW_CONVERSION: bool = false;
impl Asset for TI {
    const EXTENSIONS: &'static [&'static str] = &["0"];
    type Loader = LIo;
    fn default_value(_id: &SharedString, error: BoxedError) -> Result<Self, BoxedError> {
        Err(error)
    }
}
/// whatever Rust type the loader's error has, a loader failure is a decoding (Conversion) error for the precedence rule
fn loader_io_error_is_a_decoding_error() {
    let s = Src3 { o: [O::Bad, O::Good, O::Good], reads: Cell::new(0), order_ok: Cell::new(true), variant: 0 };
    let id: SharedString = "k".into();
    unsafe { LAST_CLASS = 0 };
    let r = load_from_source::<TI>(&s, &id);
    match r {
        Ok(_) => assert!(false, "undecodable content must not load"),
        Err(e) => std::mem::forget(e),
    }
    assert!(unsafe { LAST_CLASS } == 3, "C03 a loader failure is a decoding error (highest precedence) whatever the Rust type of the loader's error");
}

/// C03.K1 — load_from_source against the property text, for an extension list of length N
fn lfs<const N: usize>(variant: u8) {
    let o = [any_o(), any_o(), any_o()];
    let s = Src3 { o, reads: Cell::new(0), order_ok: Cell::new(true), variant };
    let id: SharedString = "k".into();
    let dm: u8 = if nd::<bool>() { 1 } else { 0 };
    unsafe {
        DEFAULT_MODE = dm;
        LAST_CLASS = 0;
    }
    let r = load_from_source::<TN<N>>(&s, &id);
    let mut first_good: Option<usize> = None;
    let mut i = 0;
    while i < N {
        if first_good.is_none() && o[i] == O::Good {
            first_good = Some(i);
        }
        i += 1;
    }
    assert!(s.order_ok.get(), "C03 extensions are tried in declaration order, each at most once, with the requested id");
    match first_good {
        Some(g) => {
            match r {
                Ok(t) => assert!(t.0 == GOOD[g][0], "C03 the loader's result on the bytes of the FIRST extension that reads and decodes"),
                Err(e) => {
                    std::mem::forget(e);
                    assert!(false, "C03 a readable, decodable file must load");
                }
            }
            assert!(s.reads.get() as usize == g + 1, "C03 reading stops at the first success");
            assert!(unsafe { DEFAULT_CALLS } == 0, "C03 default_value is not consulted when a file loads");
        }
        None => {
            assert!(s.reads.get() as usize == N, "C03 every declared extension is tried before giving up");
            assert!(unsafe { DEFAULT_CALLS } == 1, "C03 default_value decides, exactly once");
            // maximal class over the declared extensions (0 = no extension at all)
            let mut want = 0u8;
            let mut i = 0;
            while i < N {
                let c = match o[i] { O::Bad => 3, O::Denied => 2, O::NotFound => 1, O::Good => 0 };
                if c > want {
                    want = c;
                }
                i += 1;
            }
            assert!(unsafe { DEFAULT_SAW_CLASS } == want || N == 0, "C03 default_value receives the error of maximal precedence: decoding > I/O > not-found");
            match r {
                Ok(t) => assert!(dm == 1 && t.0 == b'd', "C03 a default value is used only when default_value provides one"),
                Err(e) => {
                    assert!(dm == 0, "C03 the load fails only when default_value passes the error on");
                    std::mem::forget(e);
                }
            }
        }
    }
}
instances! {
    c03_k1_lfs_len0 => lfs::<0>(0);
    c03_k1_lfs_len1 => lfs::<1>(0);
    c03_k1_lfs_len1_buffer => lfs::<1>(1);
    c03_k1_lfs_len1_owned => lfs::<1>(2);
    c03_k1_lfs_loader_io_error => loader_io_error_is_a_decoding_error();
}
instances! {
    c03_k1t_lfs_len2 => lfs::<2>(0);
    c03_k1t_lfs_len3 => lfs::<3>(1);
}
