//! Harnesses hosted in `crate::hot_reloading::paths`: the update pass around the dependency graph, with the graph
//! functions replaced by their (assumed) contracts. Overlay only.
#![allow(dead_code, unused_imports, unused_variables)]
use super::*;
use crate::amv::common::*;
use crate::amv::{cover, nd};
use crate::hot_reloading::amv_h::{add_asset_rec, clear_rec, ev_send_rec, make_reloader, reload_rec as hr_reload_rec, send_static_rec};
use crate::hot_reloading::dependencies::amv_h as g;
use crate::hot_reloading::{Events, EventSender, HotReloader};

macro_rules! instances {
    ($( $name:ident => $body:expr; )*) => { $(
        #[cfg_attr(kani, kani::proof)]
        #[cfg_attr(kani, kani::unwind(8))]
        #[cfg_attr(kani, kani::stub(crate::error::ErrorKind::or, crate::amv::common::or_contract))]
        #[cfg_attr(kani, kani::stub(HotReloader::add_asset, add_asset_rec))]
        #[cfg_attr(kani, kani::stub(HotReloader::clear, clear_rec))]
        #[cfg_attr(kani, kani::stub(HotReloader::reload, hr_reload_rec))]
        #[cfg_attr(kani, kani::stub(HotReloader::send_static, send_static_rec))]
        #[cfg_attr(kani, kani::stub(EventSender::send, ev_send_rec))]
        #[cfg_attr(kani, kani::stub(DepsGraph::topological_sort_from, g::sort_rec))]
        #[cfg_attr(kani, kani::stub(DepsGraph::reload, g::reload_rec))]
        #[cfg_attr(kani, kani::stub(DepsGraph::contains, g::contains_rec))]
        #[cfg_attr(kani, kani::stub(std::thread::available_parallelism, crate::amv::common::par1))]
        pub(crate) fn $name() { $body }
    )* };
}

fn file(id: &str) -> OwnedDirEntry {
    OwnedDirEntry::File(id.into(), "x".into())
}
fn data() -> HotReloadingData {
    HotReloadingData::new(Box::new(Mem::new(O::Good, O::Good, 1, 2)))
}

/// C06 — one update pass = ONE sort over ALL pending entries, then one reload per listed asset in list order,
/// and the pending set is emptied (so an entry is acted upon once)
fn pass_is_one_sort() {
    let mut d = data();
    d.to_reload.insert(file("a"));
    d.to_reload.insert(file("b"));
    let map = crate::cache::amv_h::new_map();
    let rel = make_reloader();
    d.update_if_local(&map, &rel);
    unsafe {
        assert!(g::SORT_CALLS == 1, "C06 each affected asset is rewritten at most once per pass: one pass = one dependency sort over all changed entries");
        assert!(g::SORT_SAW[0] && g::SORT_SAW[1] && g::SORT_SAW_N == 2, "C05/C06 the sort starts from every entry notified since the last pass");
        assert!(g::RELOAD_CALLS == 2 && g::RELOAD_ORDER_OK, "C05 every listed asset is reloaded once, dependencies before dependents (list order)");
    }
    assert!(d.to_reload.len() == 0, "C06 notified entries are consumed by the pass");
    // nothing pending: the next pass sorts from nothing
    d.update_if_local(&map, &rel);
    unsafe {
        assert!(g::SORT_CALLS == 2 && g::SORT_SAW_N == 2, "C06 an entry is acted upon once: the second pass starts from no entry");
    }
    std::mem::forget(map);
    std::mem::forget(rel);
    std::mem::forget(d);
}
/// C06 — a pass consumes the notified entries also when no asset is affected (otherwise a stale notification is replayed
/// later and rewrites an asset although nothing changed since it was loaded)
fn pass_consumes_events_without_assets() {
    let mut d = data();
    unsafe { g::SORT_EMPTY = true };
    d.to_reload.insert(file("a"));
    let map = crate::cache::amv_h::new_map();
    let rel = make_reloader();
    d.update_if_local(&map, &rel);
    unsafe {
        assert!(g::SORT_CALLS == 1 && g::RELOAD_CALLS == 0, "nothing to reload when the sort lists no asset");
    }
    assert!(d.to_reload.len() == 0, "C06 notified entries are consumed by the pass, also when no asset is affected: an asset is rewritten only if something it recorded was notified since");
    std::mem::forget(map);
    std::mem::forget(rel);
    std::mem::forget(d);
}
/// C06 — events for entries absent from the graph are dropped; known ones are queued once; Local mode does not reload on events
fn events_are_filtered() {
    let mut d = data();
    let (ka, kb): (bool, bool) = (nd(), nd());
    unsafe { g::CONTAINS_ANSWER = [ka, kb] };
    d.handle_events(Events::Multiple(vec![file("a"), file("b"), file("a")]));
    assert!(d.to_reload.len() == (ka as usize) + (kb as usize), "C06 an event is queued iff somebody recorded that entry; duplicates collapse");
    assert!(d.to_reload.contains(&file("a")) == ka && d.to_reload.contains(&file("b")) == kb, "C06 events for unknown entries are dropped");
    unsafe {
        assert!(g::SORT_CALLS == 0 && g::RELOAD_CALLS == 0, "C07 unless enhance_hot_reloading was called, values change only inside hot_reload (no reload on plain events)");
    }
    d.handle_events(Events::Single(OwnedDirEntry::Directory("a".into())));
    assert!(d.to_reload.len() == (ka as usize) + (kb as usize), "C06 unknown directory event dropped");
    std::mem::forget(d);
}
/// C05.K9 / C07.K4 — mode dispatch: Local reloads only on the Ptr message; Static reloads on events; use_static_ref switches once
fn mode_dispatch() {
    let mut d = data();
    unsafe { g::CONTAINS_ANSWER = [true, true] };
    let map: &'static AssetMap = Box::leak(Box::new(crate::cache::amv_h::new_map()));
    let rel: &'static HotReloader = Box::leak(Box::new(make_reloader()));
    d.handle_events(Events::Single(file("a")));
    unsafe { assert!(g::SORT_CALLS == 0, "C07 local mode: no update on events") };
    d.use_static_ref(map, rel);
    unsafe { assert!(g::SORT_CALLS == 1 && g::SORT_SAW[0], "C05 switching to the static reference runs the pending update at once") };
    assert!(d.to_reload.len() == 0);
    d.use_static_ref(map, rel);
    unsafe { assert!(g::SORT_CALLS == 1, "C05 enhance_hot_reloading takes effect once") };
    d.handle_events(Events::Single(file("b")));
    unsafe { assert!(g::SORT_CALLS == 2 && g::SORT_SAW[1], "C05 after enhance_hot_reloading a notified change is applied by itself") };
    d.update_if_local(map, rel);
    unsafe { assert!(g::SORT_CALLS == 2, "C05 in static mode hot_reload is a no-op") };
    d.clear_local_cache();
    assert!(d.to_reload.len() == 0);
    std::mem::forget(d);
}
instances! {
    c06_k5_pass_is_one_sort => pass_is_one_sort();
    c06_k5_pass_consumes_events_without_assets => pass_consumes_events_without_assets();
    c06_k5_events_are_filtered => events_are_filtered();
    c05_k9_mode_dispatch => mode_dispatch();
}

/// C05.K8 — registration reaches the graph unchanged: AssetReloadInfos::from_type / HotReloadingData::add_asset forward
/// (key, dependency set, type) to DepsGraph::insert_asset
fn add_asset_forwards() {
    let mut d = data();
    let deps = crate::hot_reloading::records::amv_h::deps_of(vec![crate::hot_reloading::records::amv_h::dep_file("a", "x"), crate::hot_reloading::records::amv_h::dep_dir("d")]);
    d.add_asset(AssetReloadInfos::from_type("a".into(), deps, crate::key::Type::of::<A>()));
    unsafe {
        assert!(g::INSERT_CALLS == 1 && g::INSERT_ID0 == b'a' && g::INSERT_TY_IS_A && g::INSERT_NDEPS == 2 && g::INSERT_HAS_FILE_AND_DIR, "C05 a registration reaches the graph with the same key, dependency set and type");
    }
    std::mem::forget(d);
}
#[kani::proof]
#[kani::unwind(8)]
#[kani::stub(DepsGraph::insert_asset, g::insert_asset_rec)]
#[kani::stub(std::thread::available_parallelism, crate::amv::common::par1)]
pub(crate) fn c05_k8_add_asset_forwards() {
    add_asset_forwards()
}
