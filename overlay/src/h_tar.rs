//! C04 — the index a tar archive source builds from its members (child module of src/source/tar.rs).
//! `register_file` needs a `tar::Entry`, which only the archive parser can produce and CBMC cannot execute the parser; the
//! body of its `try` closure is copied verbatim by the overlay (slice_tar_register.rs) behind a wrapper that supplies the
//! member's path, kind, offset and size. `register_dir` is the real function.
//! Only `c04_k5_tar_top_file` is a registered obligation (41 s). The `x_*` instances (two-level trees, `register_dir` alone) are
//! written but NOT registered: CBMC did not finish any of them in 8-15 min (DESIGN.md 0.3); they are kept for a faster back end.
#![allow(unused_imports, dead_code)]
use super::*;

#[path = "slice_tar_register.rs"]
mod slice;
use slice::{amv_register_member, SliceHeader, SliceMember};

type Files = HashMap<FileDesc, (u64, u64)>;
type Dirs = HashMap<SharedString, Vec<OwnedEntry>>;

fn member(path: &str, file: Option<(u64, u64)>, files: &mut Files, dirs: &mut Dirs, ib: &mut IdBuilder) -> bool {
    let m = SliceMember { hdr: SliceHeader { is_file: file.is_some() }, start: file.map_or(0, |f| f.0), size: file.map_or(0, |f| f.1) };
    amv_register_member(&m, std::borrow::Cow::Borrowed(Path::new(path)), files, dirs, ib).is_some()
}

/// the listing of `dir` is exactly `want` (order free, each once); kinds: (id, Some(ext)) file, (id, None) directory
fn lists(dirs: &Dirs, dir: &str, want: &[(&str, Option<&str>)]) {
    let Some(l) = dirs.get(dir) else {
        assert!(false, "C04 every directory of the tree exists in the archive source, with or without a member of its own (the root included)");
        return;
    };
    assert!(l.len() == want.len(), "C04 read_dir reports each direct child exactly once (no child missing, none twice)");
    let mut i = 0;
    while i < want.len() {
        let mut hits = 0;
        let mut j = 0;
        while j < l.len() {
            let same = match (l[j].as_dir_entry(), want[i].1) {
                (DirEntry::File(id, ext), Some(e)) => id == want[i].0 && ext == e,
                (DirEntry::Directory(id), None) => id == want[i].0,
                _ => false,
            };
            if same {
                hits += 1;
            }
            j += 1;
        }
        assert!(hits == 1, "C04 read_dir reports each direct child exactly once with the right kind, id and extension");
        i += 1;
    }
}

/// the tree d/{f.x}: whatever the member order and whether or not `d` has a member, the index is the same
fn tree_d_f(members: &[(&str, Option<(u64, u64)>)]) {
    let mut files = Files::new();
    let mut dirs = Dirs::new();
    let mut ib = IdBuilder::default();
    let mut i = 0;
    while i < members.len() {
        let ok = member(members[i].0, members[i].1, &mut files, &mut dirs, &mut ib);
        assert!(ok, "C04 a member with a valid name is registered");
        i += 1;
    }
    lists(&dirs, "", &[("d", None)]);
    lists(&dirs, "d", &[("d.f", Some("x"))]);
    assert!(dirs.len() == 2, "C04 anything absent is reported as not found: no directory beyond the tree's");
    assert!(files.len() == 1, "C04 no file beyond the tree's");
    match files.get(&("d.f", "x") as &dyn FileKey) {
        Some(&(start, size)) => assert!(start == 512 && size == 3, "C04 a listed file is readable under the id it was listed with: the recorded (offset, size) are the member's"),
        None => assert!(false, "C04 every listed entry is readable under the id it was listed with"),
    }
    std::mem::forget(files);
    std::mem::forget(dirs);
    std::mem::forget(ib);
}

macro_rules! tar_instances {
    ($( $name:ident / $unw:literal => $body:expr; )*) => { $(
        #[kani::proof]
        #[kani::unwind($unw)]
        pub(crate) fn $name() { $body }
    )* };
}
/// the tree {f.x}: a single top-level file makes the root exist and list it
fn tree_f() {
    let mut files = Files::new();
    let mut dirs = Dirs::new();
    let mut ib = IdBuilder::default();
    let ok = member("f.x", Some((512, 3)), &mut files, &mut dirs, &mut ib);
    assert!(ok, "C04 a member with a valid name is registered");
    lists(&dirs, "", &[("f", Some("x"))]);
    assert!(dirs.len() == 1 && files.len() == 1, "C04 nothing beyond the tree");
    match files.get(&("f", "x") as &dyn FileKey) {
        Some(&(start, size)) => assert!(start == 512 && size == 3, "C04 a listed file is readable under the id it was listed with: the recorded (offset, size) are the member's"),
        None => assert!(false, "C04 every listed entry is readable under the id it was listed with"),
    }
    std::mem::forget(files);
    std::mem::forget(dirs);
    std::mem::forget(ib);
}
/// the tree d/{f/} (directories only, so no extension parsing): same index whatever members there are and in whatever order
fn tree_d_fdir(members: &[&str]) {
    let mut files = Files::new();
    let mut dirs = Dirs::new();
    let mut ib = IdBuilder::default();
    let mut i = 0;
    while i < members.len() {
        let ok = member(members[i], None, &mut files, &mut dirs, &mut ib);
        assert!(ok, "C04 a member with a valid name is registered");
        i += 1;
    }
    lists(&dirs, "", &[("d", None)]);
    lists(&dirs, "d", &[("d.f", None)]);
    lists(&dirs, "d.f", &[]);
    assert!(dirs.len() == 3 && files.len() == 0, "C04 nothing beyond the tree");
    std::mem::forget(files);
    std::mem::forget(dirs);
    std::mem::forget(ib);
}
/// `register_dir` (real function, no path parsing): registering a directory makes it and every ancestor up to the root exist,
/// each listed exactly once in its parent; doing it again, or for a sibling, adds nothing twice and loses nothing
fn register_dir_chain(twice: bool) {
    let mut dirs = Dirs::new();
    register_dir(&mut dirs, &SharedString::from("d.f"));
    if twice {
        register_dir(&mut dirs, &SharedString::from("d"));
        register_dir(&mut dirs, &SharedString::from("d.f"));
    }
    lists(&dirs, "", &[("d", None)]);
    lists(&dirs, "d", &[("d.f", None)]);
    lists(&dirs, "d.f", &[]);
    assert!(dirs.len() == 3, "C04 nothing beyond the tree");
    std::mem::forget(dirs);
}
tar_instances! {
    x_c04_k6_register_dir_chain / 5 => register_dir_chain(false);
    x_c04_k6_register_dir_again / 5 => register_dir_chain(true);
}
tar_instances! {
    x_c04_k5_tar_dirs_leaf_only / 6 => tree_d_fdir(&["d/f"]);
    x_c04_k5_tar_dirs_child_first / 6 => tree_d_fdir(&["d/f", "d"]);
    x_c04_k5_tar_dirs_parent_first / 6 => tree_d_fdir(&["d", "d/f"]);
    c04_k5_tar_top_file / 5 => tree_f();
    x_c04_k5_tar_parent_first / 8 => tree_d_f(&[("d", None), ("d/f.x", Some((512, 3)))]);
    x_c04_k5_tar_child_first / 8 => tree_d_f(&[("d/f.x", Some((512, 3))), ("d", None)]);
    x_c04_k5_tar_no_dir_member / 8 => tree_d_f(&[("d/f.x", Some((512, 3)))]);
    x_c04_k5_tar_dot_slash / 10 => tree_d_f(&[("./d/f.x", Some((512, 3)))]);
}
