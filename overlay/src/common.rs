//! Shared harness vocabulary (assets, sources, contract map, model view). Overlay only.
#![allow(dead_code, unused_imports, unused_variables)]
use crate::amv::nd;
use crate::{
    anycache::{AssetMap as AssetMapT, Cache, CacheExt, RawCache},
    asset::NotHotReloaded,
    entry::{CacheEntry, UntypedHandle},
    loader,
    source::{DirEntry, FileContent, Source},
    AnyCache, Asset, BoxedError, Compound, SharedString, Storable,
};
use std::{
    any::TypeId,
    borrow::Cow,
    cell::{Cell, UnsafeCell},
    io,
};

// ---------------------------------------------------------------------------------------------
// error type returned by harness loaders (no formatting anywhere)
// ---------------------------------------------------------------------------------------------
#[derive(Debug)]
pub struct BadErr;
impl std::fmt::Display for BadErr {
    fn fmt(&self, _f: &mut std::fmt::Formatter<'_>) -> std::fmt::Result {
        Ok(())
    }
}
impl std::error::Error for BadErr {}

// ---------------------------------------------------------------------------------------------
// asset types: A, B reloadable (same ids, same extension "x"), S opted out of hot-reloading
// ---------------------------------------------------------------------------------------------
pub trait Mk: Sized {
    fn mk(b: u8) -> Self;
    fn val(&self) -> u8;
}
pub struct L1;
impl<T: Mk> loader::Loader<T> for L1 {
    fn load(content: Cow<[u8]>, _ext: &str) -> Result<T, BoxedError> {
        if content.len() == 1 {
            Ok(T::mk(content[0]))
        } else {
            Err(Box::new(BadErr))
        }
    }
}
macro_rules! mk_asset {
    ($n:ident, $hot:expr) => {
        pub struct $n(pub u8);
        impl Mk for $n {
            fn mk(b: u8) -> Self {
                $n(b)
            }
            fn val(&self) -> u8 {
                self.0
            }
        }
        impl Asset for $n {
            const EXTENSION: &'static str = "x";
            type Loader = L1;
            const HOT_RELOADED: bool = $hot;
        }
    };
}
mk_asset!(A, true);
mk_asset!(B, true);
mk_asset!(S, false);
impl NotHotReloaded for S {}

/// A plain Storable (never loadable) value type.
pub struct P(pub u8);
impl Storable for P {}
impl NotHotReloaded for P {}
impl Mk for P {
    fn mk(b: u8) -> Self {
        P(b)
    }
    fn val(&self) -> u8 {
        self.0
    }
}

/// Compound over A with the same id: value = A's value (wrapping) + 1.
pub struct Y(pub u8);
impl Mk for Y {
    fn mk(b: u8) -> Self {
        Y(b)
    }
    fn val(&self) -> u8 {
        self.0
    }
}
impl Compound for Y {
    fn load(cache: AnyCache, id: &SharedString) -> Result<Self, BoxedError> {
        match cache.load::<A>(id) {
            Ok(h) => Ok(Y(h.read().0.wrapping_add(1))),
            Err(e) => Err(Box::new(e)),
        }
    }
}

/// Compound over the NON-reloadable S with the same id (C14: its reads must land in the compound's own set)
pub struct YS(pub u8);
impl Mk for YS {
    fn mk(b: u8) -> Self {
        YS(b)
    }
    fn val(&self) -> u8 {
        self.0
    }
}
impl Compound for YS {
    fn load(cache: AnyCache, id: &SharedString) -> Result<Self, BoxedError> {
        match cache.load_owned::<S>(id) {
            Ok(s) => Ok(YS(s.0)),
            Err(e) => Err(Box::new(e)),
        }
    }
}

// ---------------------------------------------------------------------------------------------
// in-memory source over ids {"a","b"} and extension "x" with a per-id outcome that can be flipped
// ---------------------------------------------------------------------------------------------
#[derive(Clone, Copy, PartialEq, Eq)]
pub enum O {
    NotFound,
    Denied,
    Bad,
    Good,
}
pub fn any_o() -> O {
    match nd::<u8>() & 3 {
        0 => O::NotFound,
        1 => O::Denied,
        2 => O::Bad,
        _ => O::Good,
    }
}
pub struct Mem {
    pub o: [Cell<O>; 2],
    pub data: [[u8; 1]; 2],
    /// second content of each file, served when `edited` is set (models an edit made after the load returned)
    pub data2: [[u8; 1]; 2],
    pub edited: Cell<bool>,
    pub reads: Cell<u8>,
    pub dir_reads: Cell<u8>,
}
impl Mem {
    pub fn new(oa: O, ob: O, da: u8, db: u8) -> Self {
        Mem { o: [Cell::new(oa), Cell::new(ob)], data: [[da], [db]], data2: [[da], [db]], edited: Cell::new(false), reads: Cell::new(0), dir_reads: Cell::new(0) }
    }
    pub fn any() -> Self {
        Mem::new(any_o(), any_o(), nd(), nd())
    }
    pub fn idx(id: &str) -> Option<usize> {
        if id == "a" {
            Some(0)
        } else if id == "b" {
            Some(1)
        } else {
            None
        }
    }
}
impl Source for Mem {
    fn read(&self, id: &str, ext: &str) -> io::Result<FileContent> {
        self.reads.set(self.reads.get().wrapping_add(1));
        let i = match Mem::idx(id) {
            Some(i) if ext == "x" => i,
            _ => return Err(io::Error::from(io::ErrorKind::NotFound)),
        };
        match self.o[i].get() {
            O::NotFound => Err(io::Error::from(io::ErrorKind::NotFound)),
            O::Denied => Err(io::Error::from(io::ErrorKind::PermissionDenied)),
            O::Bad => Ok(FileContent::Slice(b"")),
            O::Good => Ok(FileContent::Slice(if self.edited.get() { &self.data2[i] } else { &self.data[i] })),
        }
    }
    fn read_dir(&self, _id: &str, _f: &mut dyn FnMut(DirEntry)) -> io::Result<()> {
        self.dir_reads.set(self.dir_reads.get().wrapping_add(1));
        Err(io::Error::from(io::ErrorKind::NotFound))
    }
    fn exists(&self, _e: DirEntry) -> bool {
        false
    }
}

// ---------------------------------------------------------------------------------------------
// the contract map: AssetMap whose *implementation is its contract* (finite map keyed by (type,id),
// first writer wins, boxed entries keep their address). Directly indexed by the key alphabet
// {a,b} x {A,B,S,Y} so that a look-up never dereferences another entry (keeps CBMC's formula small).
// Used for obligations about the generic front-end; the real maps are checked against this same
// contract in C01/C02 (steps on the real map).
// ---------------------------------------------------------------------------------------------
pub const NT: usize = 4;
pub const NK: usize = 2 * NT;
pub const IDS: [&str; 2] = ["a", "b"];
pub const fn kidx(id_i: usize, ty_i: usize) -> usize {
    ty_i * 2 + id_i
}
pub fn tid(ty_i: usize) -> TypeId {
    match ty_i {
        0 => TypeId::of::<A>(),
        1 => TypeId::of::<B>(),
        2 => TypeId::of::<S>(),
        _ => TypeId::of::<Y>(),
    }
}
/// TypeId equality by comparing the two pointer-typed words AS POINTERS. `TypeId::eq` transmutes them to u128;
/// CBMC's pointer-to-integer encoding makes every *inequality* of two TypeIds cost a case split over all live
/// objects (measured: 45 s with 9 objects). Only harness-side code uses this; the code under test keeps `==`.
pub fn tid_eq(a: TypeId, b: TypeId) -> bool {
    let x: [*const (); 2] = unsafe { std::mem::transmute(a) };
    let y: [*const (); 2] = unsafe { std::mem::transmute(b) };
    x[0] == y[0] && x[1] == y[1]
}
pub fn key_index(id: &str, t: TypeId) -> usize {
    let id_i = match Mem::idx(id) {
        Some(i) => i,
        None => panic!("contract map: id outside the harness alphabet"),
    };
    let ty_i = if tid_eq(t, TypeId::of::<A>()) {
        0
    } else if tid_eq(t, TypeId::of::<B>()) {
        1
    } else if tid_eq(t, TypeId::of::<S>()) {
        2
    } else if tid_eq(t, TypeId::of::<Y>()) {
        3
    } else {
        panic!("contract map: type outside the harness alphabet")
    };
    kidx(id_i, ty_i)
}
pub struct GhostMap {
    /// storage; a slot may hold a pre-allocated entry that is *not* in the map (see `present`)
    pub slots: UnsafeCell<[Option<CacheEntry>; NK]>,
    /// which keys are in the map. Symbolic pre-states only make these booleans symbolic, never a pointer.
    pub present: [Cell<bool>; NK],
    pub inserts: Cell<u8>,
    pub gets: Cell<u8>,
}
impl GhostMap {
    pub fn new() -> Self {
        GhostMap {
            slots: UnsafeCell::new([None, None, None, None, None, None, None, None]),
            present: [Cell::new(false), Cell::new(false), Cell::new(false), Cell::new(false), Cell::new(false), Cell::new(false), Cell::new(false), Cell::new(false)],
            inserts: Cell::new(0),
            gets: Cell::new(0),
        }
    }
    pub fn slot(&self, k: usize) -> Option<&CacheEntry> {
        if self.present[k].get() {
            unsafe { (*self.slots.get())[k].as_ref() }
        } else {
            None
        }
    }
    /// harness-side pre-state construction (not an AssetMap operation): the entry is allocated
    /// unconditionally, its membership is the (possibly symbolic) flag.
    pub fn put(&self, k: usize, e: CacheEntry, present: bool) {
        let s = unsafe { &mut *self.slots.get() };
        std::mem::forget(std::mem::replace(&mut s[k], Some(e)));
        self.present[k].set(present);
    }
    /// harness-side removal (models remove/clear of the real maps for history harnesses)
    pub fn unput(&self, k: usize) {
        self.present[k].set(false);
    }
}
impl AssetMapT for GhostMap {
    fn get(&self, id: &str, t: TypeId) -> Option<&UntypedHandle> {
        self.gets.set(self.gets.get().wrapping_add(1));
        match self.slot(key_index(id, t)) {
            Some(e) => Some(unsafe { e.inner().extend_lifetime() }),
            None => None,
        }
    }
    fn insert(&self, entry: CacheEntry) -> &UntypedHandle {
        self.inserts.set(self.inserts.get().wrapping_add(1));
        let k = key_index(entry.id(), entry.type_id());
        if !self.present[k].get() {
            let s = unsafe { &mut *self.slots.get() };
            // a pre-allocated phantom that was never in the map is forgotten, not dropped
            std::mem::forget(std::mem::replace(&mut s[k], Some(entry)));
            self.present[k].set(true);
        } else {
            drop(entry);
        }
        match self.slot(k) {
            Some(e) => unsafe { e.inner().extend_lifetime() },
            None => unreachable!(),
        }
    }
    fn contains_key(&self, id: &str, t: TypeId) -> bool {
        self.present[key_index(id, t)].get()
    }
}

/// Generic front-end under test = the real `RawCache -> Cache -> CacheExt` code over the contract map.
pub struct GC {
    pub map: GhostMap,
    pub src: Mem,
    #[cfg(feature = "hot-reloading")]
    pub rel: Option<crate::hot_reloading::HotReloader>,
}
impl RawCache for GC {
    type AssetMap = GhostMap;
    type Source = Mem;
    fn assets(&self) -> &GhostMap {
        &self.map
    }
    fn get_source(&self) -> &Mem {
        &self.src
    }
    #[cfg(feature = "hot-reloading")]
    fn reloader(&self) -> Option<&crate::hot_reloading::HotReloader> {
        self.rel.as_ref()
    }
}
impl GC {
    pub fn new(src: Mem) -> Self {
        GC {
            map: GhostMap::new(),
            src,
            #[cfg(feature = "hot-reloading")]
            rel: None,
        }
    }
}

// ---------------------------------------------------------------------------------------------
// model view over the key alphabet
// ---------------------------------------------------------------------------------------------
#[derive(Clone, Copy, PartialEq, Eq)]
pub struct Slot {
    pub present: bool,
    pub val: u8,
    /// address of the entry, kept as a pointer (pointer-to-integer casts are expensive in CBMC)
    pub addr: *const (),
}
pub type View = [Slot; NK];
pub fn val_of(h: &UntypedHandle, ty_i: usize) -> u8 {
    match ty_i {
        0 => match h.downcast_ref::<A>() {
            Some(h) => h.read().0,
            None => panic!("view: entry stored under A's key is not an A"),
        },
        1 => match h.downcast_ref::<B>() {
            Some(h) => h.read().0,
            None => panic!("view: entry stored under B's key is not a B"),
        },
        2 => match h.downcast_ref::<S>() {
            Some(h) => h.read().0,
            None => panic!("view: entry stored under S's key is not an S"),
        },
        _ => match h.downcast_ref::<Y>() {
            Some(h) => h.read().0,
            None => panic!("view: entry stored under Y's key is not a Y"),
        },
    }
}
pub fn slot_view(h: Option<&UntypedHandle>, ty_i: usize) -> Slot {
    match h {
        Some(h) => Slot { present: true, val: val_of(h, ty_i), addr: h as *const UntypedHandle as *const () },
        None => Slot { present: false, val: 0, addr: std::ptr::null() },
    }
}
/// Whole view of the contract map, read from its slots.
pub fn gview(m: &GhostMap) -> View {
    let mut v = [Slot { present: false, val: 0, addr: std::ptr::null() }; NK];
    let mut k = 0;
    while k < NK {
        v[k] = slot_view(m.slot(k).map(|e| e.inner()), k / 2);
        k += 1;
    }
    v
}
/// Whole observable view of any map, through the AssetMap trait only (used for the real maps).
pub fn view_of<M: AssetMapT>(m: &M) -> View {
    let mut v = [Slot { present: false, val: 0, addr: std::ptr::null() }; NK];
    let mut k = 0;
    while k < NK {
        let (id, ty) = (IDS[k % 2], k / 2);
        v[k] = slot_view(m.get(id, tid(ty)), ty);
        assert!(m.contains_key(id, tid(ty)) == v[k].present, "view: contains_key disagrees with get");
        k += 1;
    }
    v
}
/// Pre-state of the contract map over a CONCRETE shape (which keys are present: bit0 (a,A), bit1 (a,B),
/// bit2 (b,A), bit3 (a,S)) with SYMBOLIC values. The shape is enumerated by generated harness instances
/// (symbolic presence bits make CBMC merge hit and miss paths: 45-200 s instead of 3-5 s per instance).
pub fn gfill(m: &GhostMap, mask: u8, dynamic: bool) {
    if mask & 1 != 0 {
        m.put(kidx(0, 0), CacheEntry::new(A(nd()), "a".into(), || dynamic), true);
    }
    if mask & 2 != 0 {
        m.put(kidx(0, 1), CacheEntry::new(B(nd()), "a".into(), || dynamic), true);
    }
    if mask & 4 != 0 {
        m.put(kidx(1, 0), CacheEntry::new(A(nd()), "b".into(), || dynamic), true);
    }
    if mask & 8 != 0 {
        m.put(kidx(0, 2), CacheEntry::new(S(nd()), "a".into(), || dynamic), true);
    }
}
pub fn any_err_o() -> O {
    match nd::<u8>() % 3 {
        0 => O::NotFound,
        1 => O::Denied,
        _ => O::Bad,
    }
}
/// every key except `k` is exactly as before (presence, value, address)
pub fn frame_except(pre: &View, post: &View, k: usize) {
    let mut i = 0;
    while i < NK {
        if i != k {
            assert!(pre[i] == post[i], "frame: an entry other than the one named by the operation changed");
        }
        i += 1;
    }
}
pub fn frame_all(pre: &View, post: &View) {
    frame_except(pre, post, NK);
}

// ---------------------------------------------------------------------------------------------
// callee contract stub for ErrorKind::or (its contract is proved on the real text by C03.V1):
// result is one of the two arguments and has the maximal class; the loser is forgotten instead of dropped
// (dropping a Box<dyn Error> makes CBMC fan out over every Error impl in std).
// ---------------------------------------------------------------------------------------------
use crate::error::ErrorKind;
pub static mut LAST_CLASS: u8 = 0;
pub fn class(k: &ErrorKind) -> u8 {
    match k {
        ErrorKind::NoDefaultValue => 0,
        ErrorKind::Io(e) => {
            if e.kind() == io::ErrorKind::NotFound {
                1
            } else {
                2
            }
        }
        ErrorKind::Conversion(_) => 3,
    }
}
pub fn or_contract(this: ErrorKind, other: ErrorKind) -> ErrorKind {
    let (a, b) = (class(&this), class(&other));
    if a >= b && !(a == 1 && b == 1) {
        unsafe {
            LAST_CLASS = a;
        }
        std::mem::forget(other);
        this
    } else {
        unsafe {
            LAST_CLASS = b;
        }
        std::mem::forget(this);
        other
    }
}

// ---------------------------------------------------------------------------------------------
// drop-counting payloads of four layouts (C13): zero-sized, 1 byte, heap-owning, over-aligned
// ---------------------------------------------------------------------------------------------
pub static mut DROPS: [u8; 5] = [0; 5];
pub static mut LAST_DROPPED: [u8; 5] = [0; 5];
pub fn drops(i: usize) -> u8 {
    unsafe { DROPS[i] }
}
pub fn last_dropped(i: usize) -> u8 {
    unsafe { LAST_DROPPED[i] }
}
pub trait Tracked: Mk + Compound {
    const IX: usize;
}
pub struct D0;
pub struct D1(pub u8);
pub struct DH(pub Box<u8>);
#[repr(align(64))]
pub struct DA(pub u8);
/// multi-word payload with a self-check (detects torn / partial swaps). Not over-aligned: Kani 0.68 reports a
/// spurious "misaligned pointer to reference cast" for `&mut *UnsafeCell<dyn Any>::get()` when the payload's
/// alignment exceeds 8 (its allocation model ignores the requested alignment; the same harness passes natively
/// under Miri), so over-aligned payloads are only used where no `dyn` place is dereferenced mutably.
pub struct DW(pub u8, pub u64);
impl Mk for D0 {
    fn mk(_b: u8) -> Self {
        D0
    }
    fn val(&self) -> u8 {
        0
    }
}
impl Mk for D1 {
    fn mk(b: u8) -> Self {
        D1(b)
    }
    fn val(&self) -> u8 {
        self.0
    }
}
impl Mk for DH {
    fn mk(b: u8) -> Self {
        DH(Box::new(b))
    }
    fn val(&self) -> u8 {
        *self.0
    }
}
impl Mk for DW {
    fn mk(b: u8) -> Self {
        DW(b, (b as u64) * 0x0101_0101_0101_0101)
    }
    fn val(&self) -> u8 {
        if self.1 == (self.0 as u64) * 0x0101_0101_0101_0101 {
            self.0
        } else {
            panic!("torn multi-word value")
        }
    }
}
impl Mk for DA {
    fn mk(b: u8) -> Self {
        DA(b)
    }
    fn val(&self) -> u8 {
        self.0
    }
}
macro_rules! tracked {
    ($t:ident, $i:expr) => {
        impl Drop for $t {
            fn drop(&mut self) {
                unsafe {
                    DROPS[$i] += 1;
                    LAST_DROPPED[$i] = self.val();
                }
            }
        }
        impl Compound for $t {
            fn load(_cache: AnyCache, _id: &SharedString) -> Result<Self, BoxedError> {
                Err(Box::new(BadErr))
            }
        }
        impl Tracked for $t {
            const IX: usize = $i;
        }
    };
}
tracked!(D0, 0);
tracked!(D1, 1);
tracked!(DH, 2);
tracked!(DA, 3);
tracked!(DW, 4);

pub fn par1() -> io::Result<std::num::NonZeroUsize> {
    match std::num::NonZeroUsize::new(1) {
        Some(n) => Ok(n),
        None => unreachable!(),
    }
}

/// Scenario obligations of the map contract, instantiated inside each real map's module (they use the
/// module-private `AssetMap::{new,take,remove,clear}`): the real map must behave like the contract map.
macro_rules! real_map_scenarios {
    () => {
        fn ptr(h: &UntypedHandle) -> *const () {
            h as *const UntypedHandle as *const ()
        }
        fn a_val(h: &UntypedHandle) -> u8 {
            match h.downcast_ref::<A>() {
                Some(h) => h.read().0,
                None => panic!("C13 entry stored under A's key is not an A"),
            }
        }
        /// first-writer-wins: insert on a present key keeps the first value and address
        fn m_first_writer_wins() {
            let m = AssetMap::new();
            let (v, w): (u8, u8) = (nd(), nd());
            assert!(m.get("a", tid(0)).is_none() && !m.contains_key("a", tid(0)), "C02 a new map is empty");
            let h1 = ptr(m.insert(CacheEntry::new(A(v), "a".into(), || false)));
            let h2 = m.insert(CacheEntry::new(A(w), "a".into(), || false));
            assert!(ptr(h2) == h1, "C01 insert on a present key returns the existing handle");
            assert!(a_val(h2) == v, "C01/C02 first writer wins: the stored value is never overwritten");
            match m.get("a", tid(0)) {
                Some(h) => assert!(ptr(h) == h1 && a_val(h) == v, "C01 get returns the one stable handle"),
                None => assert!(false, "C01 presence never flips back to absent"),
            }
            assert!(m.contains_key("a", tid(0)), "C02 contains_key agrees with get");
            std::mem::forget(m);
        }
        /// two ids of one type: independent entries; take/remove delete exactly what they name
        fn m_two_ids() {
            let mut m = AssetMap::new();
            let (v, w): (u8, u8) = (nd(), nd());
            let ha = ptr(m.insert(CacheEntry::new(A(v), "a".into(), || false)));
            let hb = ptr(m.insert(CacheEntry::new(A(w), "b".into(), || false)));
            assert!(ha != hb, "C02 different ids are different entries");
            match (m.get("a", tid(0)), m.get("b", tid(0))) {
                (Some(x), Some(y)) => assert!(ptr(x) == ha && ptr(y) == hb && a_val(x) == v && a_val(y) == w, "C01 handles stay valid while other entries are inserted"),
                _ => assert!(false, "C02 both entries are present"),
            }
            match m.take("a", tid(0)) {
                Some(e) => {
                    let (val, id) = e.into_inner::<A>();
                    assert!(val.0 == v && &*id == "a", "C02 take hands back the stored value of the named key");
                }
                None => assert!(false, "C02 take of a present key"),
            }
            assert!(!m.contains_key("a", tid(0)) && m.get("a", tid(0)).is_none(), "C02 take removes the named key");
            match m.get("b", tid(0)) {
                Some(y) => assert!(ptr(y) == hb && a_val(y) == w, "C02 take leaves other entries alone"),
                None => assert!(false, "C02 take deleted an entry it did not name"),
            }
            assert!(m.take("a", tid(0)).is_none(), "C02 take of an absent key is None");
            assert!(m.remove("b", tid(0)), "C02 remove of a present key is true");
            assert!(!m.remove("b", tid(0)) && !m.contains_key("b", tid(0)), "C02 remove of an absent key is false");
            std::mem::forget(m);
        }
        /// same id, different types never affect each other
        fn m_type_separation() {
            let mut m = AssetMap::new();
            let (v, w): (u8, u8) = (nd(), nd());
            let ha = ptr(m.insert(CacheEntry::new(A(v), "a".into(), || false)));
            assert!(m.get("a", tid(1)).is_none() && !m.contains_key("a", tid(1)), "C02 an entry is invisible under another type");
            assert!(m.take("a", tid(1)).is_none() && !m.remove("a", tid(1)), "C02 take/remove under another type touch nothing");
            assert!(m.contains_key("a", tid(0)), "C02 the entry survives operations on another type");
            let hb = m.insert(CacheEntry::new(B(w), "a".into(), || false));
            assert!(ptr(hb) != ha && hb.is::<B>(), "C02 same id, other type is its own entry");
            match m.get("a", tid(0)) {
                Some(x) => assert!(ptr(x) == ha && a_val(x) == v, "C02 inserting another type leaves the entry alone"),
                None => assert!(false, "C02 entry lost"),
            }
            std::mem::forget(m);
        }
        /// clear deletes everything
        fn m_clear() {
            let mut m = AssetMap::new();
            let _ = m.insert(CacheEntry::new(A(nd()), "a".into(), || false));
            let _ = m.insert(CacheEntry::new(A(nd()), "b".into(), || false));
            m.clear();
            assert!(!m.contains_key("a", tid(0)) && !m.contains_key("b", tid(0)) && m.get("a", tid(0)).is_none(), "C02 clear removes every entry");
            let v: u8 = nd();
            let h = m.insert(CacheEntry::new(A(v), "a".into(), || false));
            assert!(a_val(h) == v, "C02 a cleared key can be re-created");
            std::mem::forget(m);
        }
        // ---- small scenarios (the sharded map needs > 15 GB for the larger ones) ----
        /// minimal first-writer-wins: the loser of an insertion is dropped, the winner keeps value and address
        fn s_fww_min() {
            let m = AssetMap::new();
            let (v, w): (u8, u8) = (nd(), nd());
            let h1 = ptr(m.insert(CacheEntry::new(A(v), "a".into(), || false)));
            let h2 = m.insert(CacheEntry::new(A(w), "a".into(), || false));
            assert!(ptr(h2) == h1 && a_val(h2) == v, "C01/C13 first writer wins: a losing insertion never replaces (or drops) the cached value");
            std::mem::forget(m);
        }
        fn s_two_present() {
            let m = AssetMap::new();
            let (v, w): (u8, u8) = (nd(), nd());
            let ha = ptr(m.insert(CacheEntry::new(A(v), "a".into(), || false)));
            let hb = ptr(m.insert(CacheEntry::new(A(w), "b".into(), || false)));
            assert!(ha != hb, "C02 different ids are different entries");
            match m.get("a", tid(0)) {
                Some(x) => assert!(ptr(x) == ha && a_val(x) == v, "C01 a handle stays valid and readable while other entries are inserted"),
                None => assert!(false, "C01 presence never flips back to absent"),
            }
            std::mem::forget(m);
        }
        fn s_take() {
            let mut m = AssetMap::new();
            let v: u8 = nd();
            let _ = m.insert(CacheEntry::new(A(v), "a".into(), || false));
            match m.take("a", tid(0)) {
                Some(e) => {
                    let (val, id) = e.into_inner::<A>();
                    assert!(val.0 == v && &*id == "a", "C02 take hands back the stored value of the named key");
                }
                None => assert!(false, "C02 take must find what insert stored (same shard for shared and exclusive access)"),
            }
            assert!(!m.contains_key("a", tid(0)), "C02 take removes the named key");
            std::mem::forget(m);
        }
        fn s_other_type() {
            let mut m = AssetMap::new();
            let v: u8 = nd();
            let ha = ptr(m.insert(CacheEntry::new(A(v), "a".into(), || false)));
            assert!(m.get("a", tid(1)).is_none() && !m.remove("a", tid(1)), "C02 an entry is invisible and untouchable under another type");
            match m.get("a", tid(0)) {
                Some(x) => assert!(ptr(x) == ha && a_val(x) == v, "C02 operations on another type leave the entry alone"),
                None => assert!(false, "C02 entry lost"),
            }
            std::mem::forget(m);
        }
        fn s_clear() {
            let mut m = AssetMap::new();
            let _ = m.insert(CacheEntry::new(A(nd()), "a".into(), || false));
            m.clear();
            assert!(!m.contains_key("a", tid(0)) && m.get("a", tid(0)).is_none(), "C02 clear removes every entry");
            std::mem::forget(m);
        }
        /// drop ledger through the map: loser of an insert dropped once, take hands over, clear / drop of the map drop once
        fn m_take_tracked() {
            let mut m = AssetMap::new();
            let d0 = drops(2);
            let _ = m.insert(CacheEntry::new(DH::mk(1), "a".into(), || false));
            let _ = m.insert(CacheEntry::new(DH::mk(2), "a".into(), || false));
            assert!(drops(2) == d0 + 1 && last_dropped(2) == 2, "C13 the value that loses an insertion is dropped exactly once, immediately");
            let _ = m.insert(CacheEntry::new(DH::mk(3), "b".into(), || false));
            match m.take("a", tid_dh()) {
                Some(e) => {
                    assert!(drops(2) == d0 + 1, "C13 take does not drop the value it returns");
                    let (val, _id) = e.into_inner::<DH>();
                    assert!(*val.0 == 1);
                    std::mem::forget(val);
                }
                None => assert!(false, "C02 take of a present key"),
            }
            m.clear();
            assert!(drops(2) == d0 + 2 && last_dropped(2) == 3, "C13 clear drops every stored value exactly once");
            let _ = m.insert(CacheEntry::new(DH::mk(4), "b".into(), || false));
            drop(m);
            assert!(drops(2) == d0 + 3 && last_dropped(2) == 4, "C13 dropping the map drops every stored value exactly once");
        }
    };
}
pub(crate) use real_map_scenarios;
pub fn tid_dh() -> TypeId {
    TypeId::of::<DH>()
}
pub fn mk_kind(c: u8) -> ErrorKind {
    match c {
        0 => ErrorKind::NoDefaultValue,
        1 => ErrorKind::Io(io::Error::from(io::ErrorKind::NotFound)),
        2 => ErrorKind::Io(io::Error::from(io::ErrorKind::PermissionDenied)),
        _ => ErrorKind::Conversion(Box::new(BadErr)),
    }
}
