//! Shared harness vocabulary (assets, sources, contract map). Overlay only.
#![allow(dead_code, unused_imports)]
