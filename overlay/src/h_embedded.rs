//! Harnesses hosted in `crate::source::embedded`. Overlay only.
#![allow(dead_code, unused_imports, unused_variables)]
use super::*;
use crate::amv::{cover, nd};
use crate::source::FileContent;

/// C04.K2 — an Embedded source answers exactly its tables: read returns exactly the stored bytes, read_dir reports each
/// listed child once with its kind / id / extension, exists agrees with both, anything absent is not found
fn embedded_answers_its_tables() {
    static A: [u8; 2] = [1, 2];
    static B: [u8; 0] = [];
    static ROOT: [DirEntry<'static>; 2] = [DirEntry::File("a", "x"), DirEntry::Directory("d")];
    static D: [DirEntry<'static>; 1] = [DirEntry::File("d.b", "")];
    let raw = RawEmbedded { files: &[(("a", "x"), &A), (("d.b", ""), &B)], dirs: &[("", &ROOT), ("d", &D)] };
    let e = Embedded::from(raw);
    match e.read("a", "x") {
        Ok(FileContent::Slice(s)) => assert!(s.len() == 2 && s[0] == 1 && s[1] == 2, "C04 read returns exactly the stored bytes"),
        _ => assert!(false, "C04 a stored file is readable under the id it was listed with"),
    }
    match e.read("d.b", "") {
        Ok(c) => assert!(c.as_ref().len() == 0, "C04 empty file, empty extension"),
        Err(err) => { std::mem::forget(err); assert!(false, "C04 a stored file is readable") }
    }
    for (id, ext) in [("a", "y"), ("b", "x"), ("d", ""), ("", "x")] {
        match e.read(id, ext) {
            Ok(_) => assert!(false, "C04 anything absent is reported as not found"),
            Err(err) => { assert!(err.kind() == io::ErrorKind::NotFound); std::mem::forget(err); }
        }
    }
    let mut seen = [false; 2];
    let mut n = 0;
    let r = e.read_dir("", &mut |entry| {
        n += 1;
        if entry == DirEntry::File("a", "x") { seen[0] = true }
        if entry == DirEntry::Directory("d") { seen[1] = true }
    });
    assert!(r.is_ok() && n == 2 && seen[0] && seen[1], "C04 read_dir of the root reports each direct child exactly once with the right kind, id and extension");
    let mut n = 0;
    let r = e.read_dir("d", &mut |entry| { n += 1; assert!(entry == DirEntry::File("d.b", "")) });
    assert!(r.is_ok() && n == 1, "C04 read_dir of a directory");
    match e.read_dir("nope", &mut |_| {}) { Ok(()) => assert!(false, "C04 an absent directory is not found"), Err(err) => std::mem::forget(err) }
    assert!(e.exists(DirEntry::File("a", "x")) && e.exists(DirEntry::Directory("d")) && e.exists(DirEntry::Directory("")) && e.exists(DirEntry::File("d.b", "")), "C04 exists agrees with read / read_dir");
    assert!(!e.exists(DirEntry::File("a", "")) && !e.exists(DirEntry::Directory("a")) && !e.exists(DirEntry::File("d", "")), "C04 a directory and a file are different entries");
    std::mem::forget(e);
}
#[kani::proof]
#[kani::unwind(8)]
pub(crate) fn c04_k2_embedded_tables() {
    embedded_answers_its_tables()
}
