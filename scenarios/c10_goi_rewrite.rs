// Native scenario for C10.K5: load -> remove -> get_or_insert -> edit file -> hot_reload
use assets_manager::AssetCache;
use std::{fs, time::{Duration, Instant}};

#[test]
fn get_or_insert_value_survives_hot_reload_after_load_and_remove() {
    let dir = std::env::temp_dir().join(format!("amv_c10_{}", std::process::id()));
    let _ = fs::remove_dir_all(&dir);
    fs::create_dir_all(&dir).unwrap();
    fs::write(dir.join("a.txt"), "one").unwrap();
    let mut cache = AssetCache::new(&dir).unwrap();
    assert_eq!(&**cache.load::<String>("a").unwrap().read(), "one");
    assert!(cache.remove::<String>("a"));
    let h = cache.get_or_insert::<String>("a", "mine".to_string());
    assert_eq!(&**h.read(), "mine");
    fs::write(dir.join("a.txt"), "two").unwrap();
    let t0 = Instant::now();
    let mut rewritten = false;
    while t0.elapsed() < Duration::from_secs(3) {
        cache.hot_reload();
        if &**h.read() != "mine" { rewritten = true; break; }
        std::thread::sleep(Duration::from_millis(50));
    }
    let seen = h.read().clone();
    let _ = fs::remove_dir_all(&dir);
    assert!(!rewritten, "value stored with get_or_insert was rewritten by hot-reloading to {:?}", seen);
}
