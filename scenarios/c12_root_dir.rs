// Native scenario for C12: creating a file directly under the watched root must refresh the listing of the root ("").
use assets_manager::AssetCache;
use std::{fs, time::{Duration, Instant}};

#[test]
fn creating_a_file_in_the_root_names_the_root_directory() {
    let d = std::env::temp_dir().join(format!("amv_c12root_{}", std::process::id()));
    let _ = fs::remove_dir_all(&d);
    fs::create_dir_all(&d).unwrap();
    fs::write(d.join("one.txt"), "1").unwrap();
    let cache = AssetCache::new(&d).unwrap();
    let h = cache.load_dir::<String>("").unwrap();
    let ids = |h: &assets_manager::Handle<assets_manager::Directory<String>>| h.read().ids().map(|s| s.to_string()).collect::<Vec<_>>();
    assert_eq!(ids(h), vec!["one".to_string()]);
    std::thread::sleep(Duration::from_millis(100));
    fs::write(d.join("two.txt"), "2").unwrap();
    let t0 = Instant::now();
    let mut ok = false;
    while t0.elapsed() < Duration::from_secs(3) {
        cache.hot_reload();
        if ids(h) == vec!["one".to_string(), "two".to_string()] { ok = true; break; }
        std::thread::sleep(Duration::from_millis(50));
    }
    let seen = ids(h);
    let _ = fs::remove_dir_all(&d);
    assert!(ok, "after creating two.txt in the root the root listing is still {:?} (no event named the root directory)", seen);
}
