// Native scenario for C04: a tar archive of a tree answers like the tree itself whether or not directories have their
// own archive members, and whatever the member order.
#![cfg(all(feature = "tar", feature = "zip"))]
use assets_manager::source::{DirEntry, Source, Tar, Zip};

fn archive(members: &[(&str, Option<&[u8]>)]) -> Vec<u8> {
    let mut b = tar::Builder::new(Vec::new());
    for (path, content) in members {
        let mut h = tar::Header::new_gnu();
        match content {
            Some(bytes) => {
                h.set_entry_type(tar::EntryType::Regular);
                h.set_size(bytes.len() as u64);
                h.set_mode(0o644);
                h.set_cksum();
                b.append_data(&mut h, path, *bytes).unwrap();
            }
            None => {
                h.set_entry_type(tar::EntryType::Directory);
                h.set_size(0);
                h.set_mode(0o755);
                h.set_cksum();
                b.append_data(&mut h, path, &b""[..]).unwrap();
            }
        }
    }
    b.into_inner().unwrap()
}

fn listing(t: &impl Source, id: &str) -> Result<Vec<String>, String> {
    let mut v = Vec::new();
    t.read_dir(id, &mut |e| {
        v.push(match e {
            DirEntry::File(id, ext) => format!("file {id} {ext}"),
            DirEntry::Directory(id) => format!("dir {id}"),
        })
    })
    .map_err(|e| e.to_string())?;
    v.sort();
    Ok(v)
}

// the tree: a/ { b/ { f.x }, g.y }
fn expect_tree(t: &impl Source, what: &str) {
    assert_eq!(listing(t, ""), Ok(vec!["dir a".to_string()]), "{what}: root listing");
    assert_eq!(listing(t, "a"), Ok(vec!["dir a.b".to_string(), "file a.g y".to_string()]), "{what}: listing of a");
    assert_eq!(listing(t, "a.b"), Ok(vec!["file a.b.f x".to_string()]), "{what}: listing of a.b");
    for d in ["", "a", "a.b"] {
        assert!(t.exists(DirEntry::Directory(d)), "{what}: directory {d:?} exists");
    }
    assert!(t.exists(DirEntry::File("a.b.f", "x")) && t.exists(DirEntry::File("a.g", "y")), "{what}: files exist");
    assert_eq!(t.read("a.b.f", "x").unwrap().as_ref(), b"one", "{what}");
    assert_eq!(t.read("a.g", "y").unwrap().as_ref(), b"two", "{what}");
    assert!(!t.exists(DirEntry::Directory("c")) && listing(t, "c").is_err(), "{what}: absent directory");
}

#[test]
fn explicit_directory_members_parents_first() {
    let t = Tar::from_bytes(archive(&[("a", None), ("a/b", None), ("a/b/f.x", Some(b"one")), ("a/g.y", Some(b"two"))])).unwrap();
    expect_tree(&t, "parents first");
}

#[test]
fn explicit_directory_members_children_first() {
    let t = Tar::from_bytes(archive(&[("a/b/f.x", Some(b"one")), ("a/g.y", Some(b"two")), ("a/b", None), ("a", None)])).unwrap();
    expect_tree(&t, "children first");
}

#[test]
fn no_directory_members() {
    let t = Tar::from_bytes(archive(&[("a/b/f.x", Some(b"one")), ("a/g.y", Some(b"two"))])).unwrap();
    expect_tree(&t, "no directory members");
}

#[test]
fn dot_slash_prefix_without_directory_members() {
    let t = Tar::from_bytes(archive(&[("./a/g.y", Some(b"two")), ("./a/b/f.x", Some(b"one"))])).unwrap();
    expect_tree(&t, "./ prefix");
}

fn zip_archive(members: &[(&str, Option<&[u8]>)]) -> Vec<u8> {
    use std::io::Write;
    let mut z = zip::ZipWriter::new(std::io::Cursor::new(Vec::new()));
    let opt = zip::write::FileOptions::default().compression_method(zip::CompressionMethod::Stored);
    for (path, content) in members {
        match content {
            Some(bytes) => {
                z.start_file(*path, opt).unwrap();
                z.write_all(bytes).unwrap();
            }
            None => z.add_directory(*path, opt).unwrap(),
        }
    }
    z.finish().unwrap().into_inner()
}

#[test]
fn zip_explicit_directory_members_children_first() {
    let z = Zip::from_bytes(zip_archive(&[("a/b/f.x", Some(b"one")), ("a/g.y", Some(b"two")), ("a/b", None), ("a", None)])).unwrap();
    expect_tree(&z, "zip, children first");
}

#[test]
fn zip_no_directory_members() {
    let z = Zip::from_bytes(zip_archive(&[("a/b/f.x", Some(b"one")), ("a/g.y", Some(b"two"))])).unwrap();
    expect_tree(&z, "zip, no directory members");
}
