// Native scenario for C08.K1: several threads call hot_reload() at the same time; every call must return.
use assets_manager::{source, AssetCache, BoxedError};
use std::sync::{atomic::{AtomicUsize, Ordering}, Arc};
use std::time::{Duration, Instant};

/// in-memory source that supports hot-reloading (no file watcher involved)
#[derive(Clone)]
struct Mem;
impl source::Source for Mem {
    fn read(&self, _id: &str, _ext: &str) -> std::io::Result<source::FileContent> {
        Ok(source::FileContent::Slice(b"1"))
    }
    fn read_dir(&self, _id: &str, _f: &mut dyn FnMut(source::DirEntry)) -> std::io::Result<()> {
        Ok(())
    }
    fn exists(&self, _e: source::DirEntry) -> bool {
        true
    }
    fn make_source(&self) -> Option<Box<dyn source::Source + Send>> {
        Some(Box::new(self.clone()))
    }
    fn configure_hot_reloading(&self, events: assets_manager::hot_reloading::EventSender) -> Result<(), BoxedError> {
        std::mem::forget(events); // keep the reloader thread alive
        Ok(())
    }
}

#[test]
fn concurrent_hot_reload_callers_all_return() {
    const THREADS: usize = 4;
    const CALLS: usize = 20_000;
    let cache: &'static AssetCache<Mem> = Box::leak(Box::new(AssetCache::with_source(Mem)));
    let done = Arc::new(AtomicUsize::new(0));
    let progress = Arc::new(AtomicUsize::new(0));
    for _ in 0..THREADS {
        let (done, progress) = (done.clone(), progress.clone());
        std::thread::spawn(move || {
            for _ in 0..CALLS {
                cache.hot_reload();
                progress.fetch_add(1, Ordering::Relaxed);
            }
            done.fetch_add(1, Ordering::Relaxed);
        });
    }
    // watchdog: no progress for 3 s while callers are still pending = stuck (blocked, not slow)
    let mut last = (progress.load(Ordering::Relaxed), Instant::now());
    loop {
        if done.load(Ordering::Relaxed) == THREADS {
            return;
        }
        std::thread::sleep(Duration::from_millis(50));
        let p = progress.load(Ordering::Relaxed);
        if p != last.0 {
            last = (p, Instant::now());
        } else if last.1.elapsed() > Duration::from_secs(3) {
            panic!("hot_reload callers are stuck: {} of {} calls completed, {} of {} threads done", p, THREADS * CALLS, done.load(Ordering::Relaxed), THREADS);
        }
    }
}
