// Native scenarios for C12.K1 (real inotify on a temporary directory): deletions and renames must name the entry itself
// and its parent directory.
use assets_manager::{loader, Asset, AssetCache};
use std::{fs, path::PathBuf, time::{Duration, Instant}};

struct Two(String);
impl From<String> for Two { fn from(s: String) -> Self { Two(s) } }
impl Asset for Two {
    const EXTENSIONS: &'static [&'static str] = &["x", "y"];
    type Loader = loader::LoadFrom<String, loader::StringLoader>;
}

fn tmp(name: &str) -> PathBuf {
    let d = std::env::temp_dir().join(format!("amv_c12_{}_{}", name, std::process::id()));
    let _ = fs::remove_dir_all(&d);
    fs::create_dir_all(&d).unwrap();
    d
}
fn wait_until(cache: &AssetCache, mut ok: impl FnMut() -> bool) -> bool {
    let t0 = Instant::now();
    while t0.elapsed() < Duration::from_secs(3) {
        cache.hot_reload();
        if ok() { return true; }
        std::thread::sleep(Duration::from_millis(50));
    }
    false
}

#[test]
fn deleting_a_file_names_the_file_itself() {
    let d = tmp("del");
    fs::write(d.join("a.x"), "from x").unwrap();
    fs::write(d.join("a.y"), "from y").unwrap();
    let cache = AssetCache::new(&d).unwrap();
    let h = cache.load::<Two>("a").unwrap();
    assert_eq!(h.read().0, "from x");
    std::thread::sleep(Duration::from_millis(100));
    fs::remove_file(d.join("a.x")).unwrap();
    // loading afresh now gives "from y": the cached value must follow
    let ok = wait_until(&cache, || h.read().0 == "from y");
    let seen = h.read().0.clone();
    let _ = fs::remove_dir_all(&d);
    assert!(ok, "after deleting a.x the asset still reads {:?} (no event named the deleted file)", seen);
}

#[test]
fn renaming_a_file_names_its_parent_directory() {
    let d = tmp("ren");
    fs::create_dir_all(d.join("dir")).unwrap();
    fs::write(d.join("dir").join("one.txt"), "1").unwrap();
    let cache = AssetCache::new(&d).unwrap();
    let h = cache.load_dir::<String>("dir").unwrap();
    assert_eq!(h.read().ids().map(|s| s.to_string()).collect::<Vec<_>>(), vec!["dir.one".to_string()]);
    std::thread::sleep(Duration::from_millis(100));
    fs::rename(d.join("dir").join("one.txt"), d.join("dir").join("two.txt")).unwrap();
    let ok = wait_until(&cache, || h.read().ids().map(|s| s.to_string()).collect::<Vec<_>>() == vec!["dir.two".to_string()]);
    let seen = h.read().ids().map(|s| s.to_string()).collect::<Vec<_>>();
    let _ = fs::remove_dir_all(&d);
    assert!(ok, "after renaming dir/one.txt to dir/two.txt the directory still lists {:?} (no event named the parent directory)", seen);
}
