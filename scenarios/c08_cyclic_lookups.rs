// Native scenario for C08: two assets that look each other up (get_cached), then a notified change.
// hot_reload() must return and the process must not crash. Run in a child process so that a stack overflow of the
// reloader thread (SIGSEGV / SIGABRT of the whole process) is observed as a failed exit status.
use assets_manager::{source, AnyCache, AssetCache, BoxedError, Compound, SharedString};
use std::sync::{Arc, Mutex};

#[derive(Clone, Default)]
struct Mem {
    sender: Arc<Mutex<Option<assets_manager::hot_reloading::EventSender>>>,
}
impl source::Source for Mem {
    fn read(&self, _id: &str, _ext: &str) -> std::io::Result<source::FileContent> {
        Ok(source::FileContent::Slice(b"1"))
    }
    fn read_dir(&self, _id: &str, _f: &mut dyn FnMut(source::DirEntry)) -> std::io::Result<()> {
        Ok(())
    }
    fn exists(&self, _e: source::DirEntry) -> bool {
        true
    }
    fn make_source(&self) -> Option<Box<dyn source::Source + Send>> {
        Some(Box::new(self.clone()))
    }
    fn configure_hot_reloading(&self, events: assets_manager::hot_reloading::EventSender) -> Result<(), BoxedError> {
        *self.sender.lock().unwrap() = Some(events);
        Ok(())
    }
}
struct Ping(String);
struct Pong(String);
impl Compound for Ping {
    fn load(cache: AnyCache, _id: &SharedString) -> Result<Self, BoxedError> {
        let own = cache.load::<String>("ping")?.cloned();
        let _other = cache.get_cached::<Pong>("pong"); // look-up only (recorded as a dependency, hit or miss)
        Ok(Ping(own))
    }
}
impl Compound for Pong {
    fn load(cache: AnyCache, _id: &SharedString) -> Result<Self, BoxedError> {
        let own = cache.load::<String>("pong")?.cloned();
        let _other = cache.get_cached::<Ping>("ping");
        Ok(Pong(own))
    }
}

fn scenario() {
    let src = Mem::default();
    let cache = AssetCache::with_source(src.clone());
    let _a = cache.load::<Ping>("ping").unwrap();
    let _b = cache.load::<Pong>("pong").unwrap();
    let tx = src.sender.lock().unwrap().clone().expect("hot-reloading configured");
    for _ in 0..3 {
        tx.send(source::OwnedDirEntry::File("ping".into(), "txt".into())).unwrap();
        for _ in 0..20 {
            cache.hot_reload();
            std::thread::sleep(std::time::Duration::from_millis(5));
        }
    }
    println!("scenario-finished");
}

#[test]
fn cyclic_lookups_do_not_crash_or_hang_hot_reload() {
    if std::env::var("AMV_C08_CHILD").is_ok() {
        scenario();
        return;
    }
    let exe = std::env::current_exe().unwrap();
    let mut child = std::process::Command::new(exe)
        .args(["--exact", "cyclic_lookups_do_not_crash_or_hang_hot_reload", "--nocapture", "--test-threads", "1"])
        .env("AMV_C08_CHILD", "1")
        .stdout(std::process::Stdio::piped())
        .stderr(std::process::Stdio::piped())
        .spawn()
        .unwrap();
    let t0 = std::time::Instant::now();
    let status = loop {
        if let Some(s) = child.try_wait().unwrap() {
            break Some(s);
        }
        if t0.elapsed() > std::time::Duration::from_secs(20) {
            let _ = child.kill();
            break None;
        }
        std::thread::sleep(std::time::Duration::from_millis(50));
    };
    let out = child.wait_with_output().unwrap();
    let stdout = String::from_utf8_lossy(&out.stdout);
    match status {
        None => panic!("hot_reload never returned with assets that look each other up (child killed after 20 s)"),
        Some(s) => assert!(s.success() && stdout.contains("scenario-finished"), "the process died with assets that look each other up: {:?}\n{}", s, String::from_utf8_lossy(&out.stderr).lines().rev().take(5).collect::<Vec<_>>().join("\n")),
    }
}
